package main

import (
	"go/ast"
	"go/token"
	"go/types"
	"strings"

	"golang.org/x/tools/go/ssa"
)

// navEvalFuncs: the declarations of the navigation evaluators.
func navEvalFuncs(w *World) []*FuncInfo {
	names := c11Funcs(w)
	var out []*FuncInfo
	for _, f := range w.compilerMethods() {
		if names[f.Name()] {
			out = append(out, f)
		}
	}
	return out
}

func isReflectValueMethod(info *types.Info, c *ast.CallExpr, name string) bool {
	return methodIs(calleeOf(info, c), "reflect", "Value", name)
}

// singleDef returns the unique right-hand side assigned to o in body (nil if
// there are several assignments or none).
func allDefs(info *types.Info, body ast.Node, o types.Object) []ast.Expr {
	var out []ast.Expr
	ast.Inspect(body, func(n ast.Node) bool {
		as, ok := n.(*ast.AssignStmt)
		if !ok {
			return true
		}
		for i, l := range as.Lhs {
			if objOf(info, l) != o {
				continue
			}
			if len(as.Rhs) == len(as.Lhs) {
				out = append(out, as.Rhs[i])
			} else if len(as.Rhs) == 1 {
				out = append(out, as.Rhs[0])
			}
		}
		return true
	})
	return out
}

func c11Provenance(r *Run) {
	w := r.W
	for _, f := range navEvalFuncs(w) {
		info := f.Pkg.TypesInfo
		sig := f.Obj.Type().(*types.Signature)
		isParam := func(o types.Object) bool {
			for i := 0; i < sig.Params().Len(); i++ {
				if sig.Params().At(i) == o {
					return true
				}
			}
			return false
		}
		for _, c := range callsIn(f.Decl.Body, true) {
			switch {
			case isReflectValueMethod(info, c, "Index"):
				con := "Index(" + short(w.Fset, c.Args[0]) + ")"
				o := objOf(info, c.Args[0])
				ok := false
				if o != nil {
					defs := allDefs(info, f.Decl.Body, o)
					if len(defs) == 1 {
						if ta, isTA := unparen(defs[0]).(*ast.TypeAssertExpr); isTA && ta.Type != nil && isBasicKind(info.Types[ta.Type].Type, types.Int) && isParam(objOf(info, ta.X)) {
							ok = true
						}
					}
				}
				if !ok {
					// on the SSA form: also through a validating helper that hands the asserted index back
					if fn := w.SSAFunc(f); fn != nil {
						for _, b := range fn.Blocks {
							for _, ins := range b.Instrs {
								if sc, isCall := ins.(*ssa.Call); isCall && sc.Pos() == c.Lparen {
									if _, args, isIdx := reflectValueCall(sc, "Index"); isIdx && len(args) == 1 {
										ok = indexProvenanceSSA(w, fn, args[0], 0)
									}
								}
							}
						}
					}
				}
				if ok {
					r.Ok("R1", f.Name(), con, w.Pos(c.Pos()), "the comma-ok int assertion of the evaluated index, unmodified")
				} else {
					r.Bad("R1", f.Name(), con, w.Pos(c.Pos()), "the element accessed must be selected by exactly the evaluated index (a variable bound by 'i, ok := index.(int)'); arithmetic or another variable here reads a different element")
				}
			case isReflectValueMethod(info, c, "MapIndex"), isReflectValueMethod(info, c, "SetMapIndex"):
				con := calleeOf(info, c).Name() + "(" + short(w.Fset, c.Args[0]) + ")"
				o := objOf(info, c.Args[0])
				ok := o != nil
				if ok {
					for _, d := range allDefs(info, f.Decl.Body, o) {
						dc, isCall := unparen(d).(*ast.CallExpr)
						switch {
						case isCall && funcIs(calleeOf(info, dc), "reflect", "ValueOf") && len(dc.Args) == 1 && isParam(objOf(info, dc.Args[0])):
						case isCall && isReflectValueMethod(info, dc, "Convert") && objOf(info, unparen(dc.Fun).(*ast.SelectorExpr).X) == o:
						default:
							ok = false
						}
					}
				}
				if !ok {
					// on the SSA form: also through a validating helper that hands the (converted) key back
					if fn := w.SSAFunc(f); fn != nil {
						for _, b := range fn.Blocks {
							for _, ins := range b.Instrs {
								if sc, isCall := ins.(*ssa.Call); isCall && sc.Pos() == c.Lparen {
									for _, mname := range []string{"MapIndex", "SetMapIndex"} {
										if _, args, isMI := reflectValueCall(sc, mname); isMI && len(args) >= 1 {
											ok = keyProvenanceSSA(w, fn, args[0], 0)
										}
									}
								}
							}
						}
					}
				}
				if ok {
					r.Ok("R1", f.Name(), con, w.Pos(c.Pos()), "reflect.ValueOf of the evaluated key (converted to the key type at most)")
				} else {
					r.Bad("R1", f.Name(), con, w.Pos(c.Pos()), "the map entry must be selected by exactly the evaluated key")
				}
			case isReflectValueMethod(info, c, "FieldByName"), isReflectValueMethod(info, c, "MethodByName"):
				con := calleeOf(info, c).Name() + "(" + short(w.Fset, c.Args[0]) + ")"
				if nameFromNode(w, info, f, c.Args[0]) {
					r.Ok("R1", f.Name(), con, w.Pos(c.Pos()), "the member name written in the template (the node's Value)")
				} else {
					r.Bad("R1", f.Name(), con, w.Pos(c.Pos()), "the member looked up must be the one named in the path: the identifier node's Value (for calls: the function identifier's Value)")
				}
			case isReflectValueMethod(info, c, "FieldByNameFunc"), methodIs(calleeOf(info, c), "reflect", "Type", "FieldByNameFunc"):
				// a member chosen by a predicate over the field names (case folding, a tag, a prefix) is some
				// member the predicate accepts, not the one spelled in the path: Go navigation knows exact names only
				r.Bad("R1", f.Name(), "FieldByNameFunc("+short(w.Fset, c.Args[0])+")", w.Pos(c.Pos()), "a path member must be looked up by its exact name (FieldByName / MethodByName with the node's Value); a lookup by predicate can hand back another member, where Go navigation fails")
			}
		}
	}
}

// nameOfExprHelper: g(x ast.Expression) string returns, on every return, x.String() or the Value of
// the identifier x is (directly or through a local all of whose definitions are such).
func nameOfExprHelper(g *FuncInfo) bool {
	sig := g.Obj.Type().(*types.Signature)
	if sig.Params().Len() != 1 || sig.Results().Len() != 1 || g.Decl.Body == nil {
		return false
	}
	info := g.Pkg.TypesInfo
	prm := sig.Params().At(0)
	var ok func(e ast.Expr, depth int) bool
	ok = func(e ast.Expr, depth int) bool {
		if depth > 4 {
			return false
		}
		e = unparen(e)
		if c, isCall := e.(*ast.CallExpr); isCall {
			sel, isSel := unparen(c.Fun).(*ast.SelectorExpr)
			return isSel && sel.Sel.Name == "String" && len(c.Args) == 0 && objOf(info, sel.X) == types.Object(prm)
		}
		if bx, fld := fieldOf(info, e); fld != nil && fld.Name() == "Value" {
			if o := objOf(info, bx); o != nil {
				for _, d := range allDefs(info, g.Decl.Body, o) {
					if ta, isTA := unparen(d).(*ast.TypeAssertExpr); isTA && objOf(info, ta.X) == types.Object(prm) {
						return true
					}
				}
			}
			return false
		}
		if o := objOf(info, e); o != nil && o != types.Object(prm) {
			defs := allDefs(info, g.Decl.Body, o)
			if len(defs) == 0 {
				return false
			}
			for _, d := range defs {
				if !ok(d, depth+1) {
					return false
				}
			}
			return true
		}
		return false
	}
	rets := returnsIn(g.Decl.Body)
	if len(rets) == 0 {
		return false
	}
	for _, ret := range rets {
		if len(ret.Results) != 1 || !ok(ret.Results[0], 0) {
			return false
		}
	}
	return true
}

// nameFromNode: e is <node>.Value, <ident from node.Function>.Value, or a
// local all of whose definitions are such (or node.Function.String()).
func nameFromNode(w *World, info *types.Info, f *FuncInfo, e ast.Expr) bool {
	node := f.Obj.Type().(*types.Signature).Params().At(0)
	var ok func(e ast.Expr, depth int) bool
	ok = func(e ast.Expr, depth int) bool {
		if depth > 4 {
			return false
		}
		e = unparen(e)
		if bx, fld := fieldOf(info, e); fld != nil && fld.Name() == "Value" {
			if objOf(info, bx) == node {
				return true
			}
			// i.Value with i := node.Function.(*ast.Identifier)
			if o := objOf(info, bx); o != nil {
				for _, d := range allDefs(info, f.Decl.Body, o) {
					if ta, isTA := unparen(d).(*ast.TypeAssertExpr); isTA {
						if b2, f2 := fieldOf(info, ta.X); f2 != nil && f2.Name() == "Function" && objOf(info, b2) == node {
							return true
						}
					}
				}
			}
			return false
		}
		if c, isCall := e.(*ast.CallExpr); isCall {
			if sel, isSel := unparen(c.Fun).(*ast.SelectorExpr); isSel && sel.Sel.Name == "String" {
				if b2, f2 := fieldOf(info, sel.X); f2 != nil && f2.Name() == "Function" && objOf(info, b2) == node {
					return true
				}
			}
			// a helper of the module applied to node.Function that returns the name of that expression:
			// its String(), or the Value of the identifier it is
			if len(c.Args) == 1 {
				if b2, f2 := fieldOf(info, c.Args[0]); f2 != nil && f2.Name() == "Function" && objOf(info, b2) == node {
					if g := w.FuncOf(calleeOf(info, c)); g != nil && nameOfExprHelper(g) {
						return true
					}
				}
			}
			return false
		}
		if o := objOf(info, e); o != nil {
			defs := allDefs(info, f.Decl.Body, o)
			if len(defs) == 0 {
				return false
			}
			for _, d := range defs {
				if !ok(d, depth+1) {
					return false
				}
			}
			return true
		}
		return false
	}
	return ok(e, 0)
}

func c11FailureArms(r *Run) {
	w := r.W
	for _, f := range navEvalFuncs(w) {
		info := f.Pkg.TypesInfo
		// containers/receivers: locals assigned from reflect.ValueOf(<param or evaluated value>)
		isContainer := func(e ast.Expr) bool {
			o := objOf(info, e)
			if o == nil {
				return false
			}
			defs := allDefs(info, f.Decl.Body, o)
			if len(defs) == 0 {
				return false
			}
			for _, d := range defs {
				c, ok := unparen(d).(*ast.CallExpr)
				if !ok || !funcIs(calleeOf(info, c), "reflect", "ValueOf") {
					// rv = rv.Elem() keeps it a container
					if ok && isReflectValueMethod(info, c, "Elem") && objOf(info, unparen(c.Fun).(*ast.SelectorExpr).X) == o {
						continue
					}
					return false
				}
			}
			return true
		}
		for _, ret := range returnsIn(f.Decl.Body) {
			if len(ret.Results) != 2 {
				continue
			}
			v, e := unparen(ret.Results[0]), unparen(ret.Results[1])
			con := short(w.Fset, ret)
			// constructed error with a non-nil value
			if c, ok := e.(*ast.CallExpr); ok && funcIs(calleeOf(info, c), "fmt", "Errorf") {
				if isNilIdent(info, v) {
					r.Ok("R2", f.Name(), con, w.Pos(ret.Pos()), "error with a nil value")
				} else {
					r.Bad("R2", f.Name(), con, w.Pos(ret.Pos()), "a failed navigation must not return a value together with its error")
				}
				continue
			}
			// returning the container / receiver itself
			if c, ok := v.(*ast.CallExpr); ok && isReflectValueMethod(info, c, "Interface") {
				if isContainer(unparen(c.Fun).(*ast.SelectorExpr).X) {
					r.Bad("R2", f.Name(), con, w.Pos(ret.Pos()),
						"when the member cannot be found the evaluator returns the container/receiver itself: 'p.Nope()' evaluates to p instead of failing")
					continue
				}
				r.Ok("R2", f.Name(), con, w.Pos(ret.Pos()), "the element/member that was navigated to")
			}
		}
		// assignments to the returned value variable inside error arms
		inspectBody(f.Decl.Body, true, func(n ast.Node) bool {
			ifs, ok := n.(*ast.IfStmt)
			if !ok {
				return true
			}
			// `if <bad> { err = fmt.Errorf(...) } else { ... }`: the error arm must not also set the value
			setsErr, setsVal := false, false
			for _, st := range ifs.Body.List {
				if as, ok := st.(*ast.AssignStmt); ok && len(as.Lhs) == 1 && len(as.Rhs) == 1 {
					if c, ok := unparen(as.Rhs[0]).(*ast.CallExpr); ok && funcIs(calleeOf(info, c), "fmt", "Errorf") {
						setsErr = true
					} else if tv, ok := info.Types[as.Lhs[0]]; ok {
						if _, isIface := tv.Type.Underlying().(*types.Interface); isIface && !isErrorType(tv.Type) {
							setsVal = true
						}
					}
				}
			}
			if setsErr && setsVal {
				r.Bad("R2", f.Name(), "error arm also yields a value "+short(w.Fset, ifs.Cond), w.Pos(ifs.Pos()), "a failed navigation must not produce a value")
			} else if setsErr {
				r.Ok("R2", f.Name(), "error arm "+short(w.Fset, ifs.Cond), w.Pos(ifs.Pos()), "sets only the error")
			}
			return true
		})
	}
}

func c11PointerTransparency(r *Run) {
	w := r.W
	id := w.evalMethod("Identifier")
	ce := w.evalMethod("CallExpression")
	if id == nil || ce == nil {
		r.Lost("R4", "identifier / call evaluators")
		return
	}
	// the member navigation may live in the identifier evaluator itself or in a helper evaluator it delegates to
	navID := id
	for _, cand := range w.evalMethods("Identifier") {
		for _, c := range callsIn(cand.Decl.Body, true) {
			if isReflectValueMethod(cand.Pkg.TypesInfo, c, "FieldByName") {
				navID = cand
			}
		}
	}
	id = navID
	info := id.Pkg.TypesInfo
	// identifier: `if rv.Kind() == reflect.Ptr { rv = rv.Elem() }` before `if rv.Kind() != reflect.Struct`
	var derefPos, structPos token.Pos
	inspectBody(id.Decl.Body, true, func(n ast.Node) bool {
		ifs, ok := n.(*ast.IfStmt)
		if !ok {
			return true
		}
		be, ok := unparen(ifs.Cond).(*ast.BinaryExpr)
		if !ok {
			return true
		}
		kc, ok := unparen(be.X).(*ast.CallExpr)
		if !ok || !isReflectValueMethod(info, kc, "Kind") {
			return true
		}
		k, _ := constInt(info, be.Y)
		recv := objOf(info, unparen(kc.Fun).(*ast.SelectorExpr).X)
		if be.Op == token.EQL && k == kPtr && len(ifs.Body.List) == 1 {
			if as, ok := ifs.Body.List[0].(*ast.AssignStmt); ok && len(as.Lhs) == 1 && objOf(info, as.Lhs[0]) == recv {
				if c, ok := unparen(as.Rhs[0]).(*ast.CallExpr); ok && isReflectValueMethod(info, c, "Elem") && !derefPos.IsValid() {
					derefPos = ifs.Pos()
				}
			}
		}
		if be.Op == token.NEQ && k == kStruct {
			structPos = ifs.Pos()
		}
		return true
	})
	if c11MemberDerefSSA(r, "R4", id) {
		// decided on the paths of the SSA form (for a struct and for a pointer to a struct)
	} else if derefPos.IsValid() && structPos.IsValid() && derefPos < structPos {
		r.Ok("R4", id.Name(), "pointer dereferenced before the struct test", w.Pos(derefPos), "if Kind()==Ptr { rv = rv.Elem() } ... if Kind() != Struct { error }")
	} else {
		r.Bad("R4", id.Name(), "pointer dereference before the struct test", w.Pos(id.Decl.Pos()), "fields of a pointer to a struct must be reachable: the pointer must be dereferenced before the value is required to be a struct")
	}
	// the field value itself: a pointer field is dereferenced (nil -> nil)
	c11FieldDerefSSA(r, "R4", id)
	c11MethodLookupSSA(r, "R4")
}

func c11ParserWiring(r *Run) {
	w := r.W
	pm := w.parserModel()
	if len(pm.problems) > 0 {
		r.Lost("R5", "parser model")
		return
	}
	// assignCallee: the parser method with a named ast.Expression result and an *ast.Identifier parameter
	var f *FuncInfo
	for _, g := range pm.methods {
		sig := g.Obj.Type().(*types.Signature)
		if sig.Params().Len() == 2 && sig.Results().Len() == 1 && namedIs(sig.Params().At(1).Type(), astPath, "Identifier") {
			f = g
		}
	}
	if f == nil {
		r.Lost("R5", "callee-wiring function of the parser")
		return
	}
	info := pm.info
	var ts *ast.TypeSwitchStmt
	inspectBody(f.Decl.Body, false, func(n ast.Node) bool {
		if s, ok := n.(*ast.TypeSwitchStmt); ok {
			ts = s
		}
		return true
	})
	if ts == nil {
		// the distinction is made in a helper: decide on the paths of the wiring function
		if c11ParserWiringSSA(r, pm, f) {
			return
		}
		r.Bad("R5", f.Name(), "no type switch", w.Pos(f.Decl.Pos()), "the wiring must distinguish the node kinds")
		return
	}
	kinds := map[string]bool{}
	defaultErr := false
	for _, c := range ts.Body.List {
		cc := c.(*ast.CaseClause)
		if cc.List == nil {
			for _, st := range cc.Body {
				if stmtsRecordError(pm, st, 0) {
					defaultErr = true
				}
			}
			continue
		}
		for _, e := range cc.List {
			kinds[strings.TrimPrefix(typeStr(info.Types[e].Type), "*ast.")] = true
		}
	}
	// no default arm, every arm leaves the function: what stands behind the switch is the default
	hasDefault, allLeave := false, true
	for _, c := range ts.Body.List {
		cc := c.(*ast.CaseClause)
		if cc.List == nil {
			hasDefault = true
		}
		if len(cc.Body) == 0 {
			allLeave = false
		} else if _, isRet := cc.Body[len(cc.Body)-1].(*ast.ReturnStmt); !isRet {
			allLeave = false
		}
	}
	if !hasDefault && allLeave {
		if blk, isBlk := w.Parent(ts).(*ast.BlockStmt); isBlk {
			after := false
			for _, st := range blk.List {
				if after && stmtsRecordError(pm, st, 0) {
					defaultErr = true
				}
				if st == ast.Stmt(ts) {
					after = true
				}
			}
		}
	}
	if kinds["IndexExpression"] && kinds["CallExpression"] && kinds["Identifier"] && len(kinds) == 3 {
		r.Ok("R5", f.Name(), "handles index, call and identifier nodes", w.Pos(ts.Pos()), "exactly the three kinds a path can continue with")
	} else {
		r.Bad("R5", f.Name(), "node kinds of the wiring", w.Pos(ts.Pos()), "a path may continue with an index, a call or an identifier; each needs its callee wired")
	}
	if defaultErr {
		r.Ok("R5", f.Name(), "anything else is a syntax error", w.Pos(ts.Pos()), "default arm appends to the error list")
	} else {
		r.Bad("R5", f.Name(), "default arm", w.Pos(ts.Pos()), "an unsupported continuation must be reported")
	}
}

func c11NoNavigationCache(r *Run) {
	w := r.W
	// evaluator fields holding reflection state
	if ct := w.compilerType(); ct != nil {
		st := ct.Underlying().(*types.Struct)
		bad := false
		for i := 0; i < st.NumFields(); i++ {
			if mentionsReflect(st.Field(i).Type(), 0) {
				bad = true
				r.Bad("R6", "plush."+ct.Obj().Name(), "field "+st.Field(i).Name()+" holds reflection state", w.Pos(st.Field(i).Pos()),
					"the evaluator keeps reflect values between calls: a later navigation can observe (or overwrite) what an earlier one looked at")
			}
		}
		if !bad {
			r.Ok("R6", "plush."+ct.Obj().Name(), "no reflection state in the evaluator", w.Pos(ct.Obj().Pos()), "fields hold scope, program and position only")
		}
	}
	// package-level reflection caches
	for _, p := range w.All {
		sc := p.Types.Scope()
		for _, n := range sc.Names() {
			if v, ok := sc.Lookup(n).(*types.Var); ok {
				if namedIs(v.Type(), "sync", "Map") || mentionsReflect(v.Type(), 0) {
					rel := relOf(w, p.PkgPath)
					if rel == "parser" || rel == "lexer" {
						continue
					}
					// a reflect.Type that only the variable's initialiser ever writes is a constant
					// (types are immutable), not a cache of what a navigation looked at
					if namedIs(v.Type(), "reflect", "Type") {
						if sp := w.SSA().Package(p.Types); sp != nil {
							if g, ok := sp.Members[n].(*ssa.Global); ok && w.globalInitStore(g) != nil {
								r.Ok("R6", p.Name+"."+n, "package-level reflect.Type constant", w.Pos(v.Pos()), "written by its initialiser only; a reflect.Type is immutable")
								continue
							}
						}
					}
					r.Bad("R6", p.Name+"."+n, "package-level cache "+typeStr(v.Type()), w.Pos(v.Pos()), "reflection results cached in package-level state are shared by all templates and executions")
				}
			}
		}
	}
	// the synthesised pointer is fresh: the receiver of the second method lookup is a local assigned from reflect.New
	ce := w.evalMethod("CallExpression")
	if ce == nil {
		return
	}
	info := ce.Pkg.TypesInfo
	var lookups []*ast.CallExpr
	for _, c := range callsIn(ce.Decl.Body, true) {
		if isReflectValueMethod(info, c, "MethodByName") {
			lookups = append(lookups, c)
		}
	}
	if len(lookups) < 2 {
		return
	}
	recv := unparen(lookups[1].Fun).(*ast.SelectorExpr).X
	fresh := false
	if o := objOf(info, recv); o != nil {
		defs := allDefs(info, ce.Decl.Body, o)
		fresh = len(defs) == 1
		for _, d := range defs {
			c, ok := unparen(d).(*ast.CallExpr)
			if !ok || !funcIs(calleeOf(info, c), "reflect", "New") {
				fresh = false
			}
		}
	}
	if fresh {
		r.Ok("R6", ce.Name(), "fresh pointer for pointer-receiver methods", w.Pos(lookups[1].Pos()), "reflect.New per call")
	} else {
		r.Bad("R6", ce.Name(), "pointer for pointer-receiver methods is not fresh", w.Pos(lookups[1].Pos()),
			"the copy a pointer-receiver method is called on must be allocated for this call: a reused cell makes a later call overwrite what an earlier result still points to")
	}
}

func mentionsReflect(t types.Type, depth int) bool {
	if depth > 4 || t == nil {
		return false
	}
	if namedIs(t, "reflect", "Value") || namedIs(t, "reflect", "Type") {
		return true
	}
	switch x := t.Underlying().(type) {
	case *types.Map:
		return mentionsReflect(x.Key(), depth+1) || mentionsReflect(x.Elem(), depth+1)
	case *types.Slice:
		return mentionsReflect(x.Elem(), depth+1)
	case *types.Pointer:
		return mentionsReflect(x.Elem(), depth+1)
	case *types.Array:
		return mentionsReflect(x.Elem(), depth+1)
	}
	return false
}
