package main

// nilssa.go: "this pointer is never nil", decided on the value graph of the program. Used where the
// syntactic nil model gives up: the results of a call with several results, values that come out of
// a helper, and a variable that a loop certainly assigns (the loop runs at least once).
//
//	allocation, address, closure, composite literal                     non-nil
//	phi                                                                 every incoming value non-nil
//	result i of a call of a module function                             every return's operand i non-nil
//	value under a dominating `v != nil`                                 non-nil
//	phi(init, next) at the head of a loop, used behind the loop          next non-nil, provided the loop is
//	                                                                    left at its head only and its first
//	                                                                    test is proven true (ledger facts,
//	                                                                    including what every call site knows)

import (
	"go/constant"
	"go/token"
	"go/types"

	"golang.org/x/tools/go/ssa"
)

type nnOracle struct {
	w     *World
	state map[nnKey]int8 // 1 in progress, 2 non-nil, 3 unknown
}

type nnKey struct {
	v  ssa.Value
	at *ssa.BasicBlock
}

func (w *World) ssaNonNil(v ssa.Value, at *ssa.BasicBlock) bool {
	o := &nnOracle{w: w, state: map[nnKey]int8{}}
	return o.val(v, at, 0)
}

// resultNonNil: result i of fn is non-nil on every return.
func (w *World) resultNonNil(fn *ssa.Function, i int) bool {
	o := &nnOracle{w: w, state: map[nnKey]int8{}}
	return o.result(fn, i, 0)
}

func (o *nnOracle) result(fn *ssa.Function, i int, d int) bool {
	if fn == nil || len(fn.Blocks) == 0 || !inModule(fn) {
		return false
	}
	n := 0
	for _, b := range fn.Blocks {
		ret, ok := b.Instrs[len(b.Instrs)-1].(*ssa.Return)
		if !ok {
			continue
		}
		ops := retOperands(ret)
		if i >= len(ops) {
			return false
		}
		n++
		if !o.val(ops[i], b, d+1) {
			return false
		}
	}
	return n > 0
}

func (o *nnOracle) val(v ssa.Value, at *ssa.BasicBlock, d int) bool {
	if v == nil || d > 10 {
		return false
	}
	k := nnKey{v, at}
	switch o.state[k] {
	case 1, 2:
		return true // in progress: a value that only depends on itself through a cycle is produced by a base case
	case 3:
		return false
	}
	o.state[k] = 1
	ok := o.val0(v, at, d)
	if ok {
		o.state[k] = 2
	} else {
		o.state[k] = 3
	}
	return ok
}

func (o *nnOracle) val0(v ssa.Value, at *ssa.BasicBlock, d int) bool {
	switch x := v.(type) {
	case *ssa.Alloc, *ssa.MakeClosure, *ssa.MakeMap, *ssa.MakeChan, *ssa.MakeSlice, *ssa.Function, *ssa.Global, *ssa.FieldAddr, *ssa.IndexAddr:
		return true
	case *ssa.Const:
		return !x.IsNil() && x.Value != nil
	case *ssa.ChangeType:
		return o.val(x.X, at, d+1)
	case *ssa.Phi:
		if o.loopCarried(x, at, d) {
			return true
		}
		for i, e := range x.Edges {
			if !o.val(e, x.Block().Preds[i], d+1) {
				return o.guarded(v, at)
			}
		}
		return true
	case *ssa.Call:
		if g := x.Call.StaticCallee(); g != nil && x.Call.Signature().Results().Len() == 1 {
			if o.result(g, 0, d) {
				return true
			}
		}
	case *ssa.Extract:
		if c, ok := x.Tuple.(*ssa.Call); ok {
			if g := c.Call.StaticCallee(); g != nil && o.result(g, x.Index, d) {
				return true
			}
		}
	}
	return o.guarded(v, at)
}

// guarded: a test `v != nil` dominates at (on its true side).
func (o *nnOracle) guarded(v ssa.Value, at *ssa.BasicBlock) bool {
	if at == nil {
		return false
	}
	for _, f := range dominatingFacts(at) {
		cond, truth := f.cond, f.truth
		for {
			u, ok := cond.(*ssa.UnOp)
			if !ok || u.Op != token.NOT {
				break
			}
			cond, truth = u.X, !truth
		}
		bo, ok := cond.(*ssa.BinOp)
		if !ok || (bo.Op != token.EQL && bo.Op != token.NEQ) {
			continue
		}
		if (bo.X == v && isNilConst(bo.Y)) || (bo.Y == v && isNilConst(bo.X)) {
			if truth == (bo.Op == token.NEQ) {
				return true
			}
		}
	}
	return false
}

// loopCarried: phi sits at the head of a loop and is used behind it; the loop is left at its head only, runs
// at least once, and every value the phi takes from inside the loop is non-nil.
func (o *nnOracle) loopCarried(phi *ssa.Phi, at *ssa.BasicBlock, d int) bool {
	h := phi.Block()
	body := loopBodyOf(h)
	if len(body) < 2 || at == nil || body[at] {
		return false
	}
	// left at the head only (a break out of the body would carry the value of an unfinished iteration)
	for b := range body {
		for _, s := range b.Succs {
			if !body[s] && b != h {
				return false
			}
		}
	}
	nBack := 0
	for i, e := range phi.Edges {
		if !body[h.Preds[i]] {
			continue
		}
		nBack++
		if !o.val(e, h.Preds[i], d+1) {
			return false
		}
	}
	if nBack == 0 {
		return false
	}
	return o.runsOnce(h)
}

// runsOnce: the test at the head of the loop is true on entry: it is `a < b` (or b > a) where a, taken with the
// head's phis at their entry values, is a constant, and the facts at the entry give b above it.
func (o *nnOracle) runsOnce(h *ssa.BasicBlock) bool {
	body := loopBodyOf(h)
	iff, ok := h.Instrs[len(h.Instrs)-1].(*ssa.If)
	if !ok || len(h.Succs) != 2 || !body[h.Succs[0]] || body[h.Succs[1]] {
		return false
	}
	bo, ok := iff.Cond.(*ssa.BinOp)
	if !ok {
		return false
	}
	a, b := bo.X, bo.Y
	switch bo.Op {
	case token.LSS:
	case token.GTR:
		a, b = b, a
	default:
		return false
	}
	var pre *ssa.BasicBlock
	for _, p := range h.Preds {
		if !body[p] {
			if pre != nil {
				return false
			}
			pre = p
		}
	}
	if pre == nil {
		return false
	}
	// a at entry: constants, the head's phis at their entry edge, +/- of those
	var entry func(v ssa.Value, depth int) (int64, bool)
	entry = func(v ssa.Value, depth int) (int64, bool) {
		if depth > 6 {
			return 0, false
		}
		switch x := v.(type) {
		case *ssa.Const:
			if x.Value != nil && x.Value.Kind() == constant.Int {
				n, exact := constant.Int64Val(x.Value)
				return n, exact
			}
		case *ssa.Phi:
			if x.Block() != h {
				return 0, false
			}
			for i, p := range h.Preds {
				if p == pre {
					return entry(x.Edges[i], depth+1)
				}
			}
		case *ssa.BinOp:
			l, ok1 := entry(x.X, depth+1)
			r, ok2 := entry(x.Y, depth+1)
			if ok1 && ok2 {
				switch x.Op {
				case token.ADD:
					return l + r, true
				case token.SUB:
					return l - r, true
				}
			}
		}
		return 0, false
	}
	c0, ok := entry(a, 0)
	if !ok {
		return false
	}
	// b must not change in the loop
	if ins, isIns := b.(ssa.Instruction); isIns && ins.Block() != nil && body[ins.Block()] {
		if _, isConst := b.(*ssa.Const); !isConst {
			return false
		}
	}
	if _, isBasic := b.Type().Underlying().(*types.Basic); !isBasic {
		return false
	}
	lg := newLedger(o.w, h.Parent())
	facts := lg.subFacts(lg.boundFacts(pre))
	bb, boff := lg.term(b)
	// c0 + 1 <= bb + boff   <=>   0 - bb <= boff - c0 - 1
	return entails(facts, "0", bb, boff-c0-1)
}
