package main

// c20loops.go: the first K characters of a text taken by a loop instead of a []rune conversion.
//
// Two loop forms denote "the first min(K, characters of s) characters of s":
//
//	collector:  acc := empty []rune; for _, r := range s { if len(acc) == K { break }; acc = append(acc, r) }
//	            -> string(acc)
//	cut point:  n := 0; for i := range s { if n == K { ... s[:i] ... }; n++ }
//	            -> s[:i] in the part dominated by the test
//
// Both are read from the value graph of the program (not from one path): the accumulator / counter is a
// header phi that starts empty / at zero, grows by exactly the ranged character / by one on every back
// edge, and the loop is left only by the exhaustion of the range or by the test against K.

import (
	"go/constant"
	"go/token"
	"go/types"

	"golang.org/x/tools/go/ssa"
)

func stripTrivialPhi(v ssa.Value) ssa.Value {
	for i := 0; i < 8; i++ {
		phi, ok := v.(*ssa.Phi)
		if !ok || len(phi.Edges) == 0 {
			return v
		}
		first := stripTrivialPhi0(phi.Edges[0])
		same := true
		for _, e := range phi.Edges[1:] {
			if stripTrivialPhi0(e) != first {
				same = false
			}
		}
		if !same {
			return v
		}
		v = first
	}
	return v
}

func stripTrivialPhi0(v ssa.Value) ssa.Value {
	if phi, ok := v.(*ssa.Phi); ok && len(phi.Edges) == 1 {
		return phi.Edges[0]
	}
	return v
}

// stringRangeNext: the Next instruction of a range over a string, and the ranged string.
func stringRangeNext(v ssa.Value) (*ssa.Next, ssa.Value, bool) {
	nx, ok := v.(*ssa.Next)
	if !ok || !nx.IsString {
		return nil, nil, false
	}
	rg, ok := nx.Iter.(*ssa.Range)
	if !ok {
		return nil, nil, false
	}
	if b, ok := rg.X.Type().Underlying().(*types.Basic); !ok || b.Info()&types.IsString == 0 {
		return nil, nil, false
	}
	return nx, rg.X, true
}

// singleAppended: call is append(base, x) with exactly one appended element; returns base and x.
func singleAppended(v ssa.Value) (base, elem ssa.Value, ok bool) {
	c, isCall := v.(*ssa.Call)
	if !isCall {
		return nil, nil, false
	}
	b, isB := c.Call.Value.(*ssa.Builtin)
	if !isB || b.Name() != "append" || len(c.Call.Args) != 2 {
		return nil, nil, false
	}
	sl, isSl := c.Call.Args[1].(*ssa.Slice)
	if !isSl || sl.Low != nil || sl.High != nil {
		return nil, nil, false
	}
	al, isAl := sl.X.(*ssa.Alloc)
	if !isAl {
		return nil, nil, false
	}
	pt, _ := al.Type().Underlying().(*types.Pointer)
	if pt == nil {
		return nil, nil, false
	}
	arr, _ := pt.Elem().Underlying().(*types.Array)
	if arr == nil || arr.Len() != 1 {
		return nil, nil, false
	}
	var stored ssa.Value
	n := 0
	for _, ref := range *al.Referrers() {
		switch x := ref.(type) {
		case *ssa.IndexAddr:
			for _, r2 := range *x.Referrers() {
				if st, isSt := r2.(*ssa.Store); isSt && st.Addr == x {
					stored = st.Val
					n++
				} else {
					return nil, nil, false
				}
			}
		case *ssa.Slice:
			if x != sl {
				return nil, nil, false
			}
		case *ssa.DebugRef:
		default:
			return nil, nil, false
		}
	}
	if n != 1 {
		return nil, nil, false
	}
	return c.Call.Args[0], stored, true
}

// loopExitsOnly: every edge that leaves the loop of header h is the exhaustion of nx (the false branch of
// its ok component) or the true branch of a test accepted by isStop; returns the stop tests found.
func loopExitsOnly(h *ssa.BasicBlock, nx *ssa.Next, isStop func(cond ssa.Value) bool) (stops []*ssa.If, ok bool) {
	body := loopBodyOf(h)
	if len(body) < 2 {
		return nil, false
	}
	for b := range body {
		if len(b.Instrs) == 0 {
			return nil, false
		}
		last := b.Instrs[len(b.Instrs)-1]
		switch t := last.(type) {
		case *ssa.Jump:
			if !body[b.Succs[0]] {
				return nil, false
			}
		case *ssa.If:
			outT, outF := !body[b.Succs[0]], !body[b.Succs[1]]
			if !outT && !outF {
				continue
			}
			if ex, isEx := t.Cond.(*ssa.Extract); isEx && ex.Index == 0 && ex.Tuple == ssa.Value(nx) {
				if outF && !outT {
					continue
				}
				return nil, false
			}
			if outT && !outF && isStop(t.Cond) {
				stops = append(stops, t)
				continue
			}
			return nil, false
		default:
			return nil, false // return or panic inside the loop
		}
	}
	return stops, true
}

func definedOutside(v ssa.Value, body map[*ssa.BasicBlock]bool) bool {
	switch x := v.(type) {
	case *ssa.Const, *ssa.Parameter, *ssa.FreeVar, *ssa.Global:
		return true
	case ssa.Instruction:
		return x.Block() != nil && !body[x.Block()]
	}
	return false
}

// stopAt: cond is `count == K` (either order; >= accepted on the count's side) with K fixed during the loop.
func stopAt(cond ssa.Value, isCount func(ssa.Value) bool, body map[*ssa.BasicBlock]bool) (ssa.Value, bool) {
	bo, ok := cond.(*ssa.BinOp)
	if !ok {
		return nil, false
	}
	switch {
	case isCount(bo.X) && (bo.Op == token.EQL || bo.Op == token.GEQ) && definedOutside(bo.Y, body):
		return bo.Y, true
	case isCount(bo.Y) && (bo.Op == token.EQL || bo.Op == token.LEQ) && definedOutside(bo.X, body):
		return bo.X, true
	}
	return nil, false
}

// runeCollector: v is the accumulator of a collector loop; returns the ranged string and K.
func runeCollector(v ssa.Value) (src, k ssa.Value, ok bool) {
	v = stripTrivialPhi(origValue(v))
	acc, isPhi := v.(*ssa.Phi)
	if !isPhi || !isRuneSlice(acc.Type()) {
		return nil, nil, false
	}
	h := acc.Block()
	body := loopBodyOf(h)
	if len(body) < 2 {
		return nil, nil, false
	}
	var nx *ssa.Next
	nBack, nInit := 0, 0
	for i, e := range acc.Edges {
		pred := h.Preds[i]
		if !body[pred] {
			// before the loop: an empty slice
			switch x := e.(type) {
			case *ssa.MakeSlice:
				c, isC := x.Len.(*ssa.Const)
				if !isC || c.Value == nil || constant.Sign(c.Value) != 0 {
					return nil, nil, false
				}
			case *ssa.Const:
				if !x.IsNil() {
					return nil, nil, false
				}
			default:
				return nil, nil, false
			}
			nInit++
			continue
		}
		base, elem, isApp := singleAppended(e)
		if !isApp || base != ssa.Value(acc) {
			return nil, nil, false
		}
		ex, isEx := elem.(*ssa.Extract)
		if !isEx || ex.Index != 2 {
			return nil, nil, false
		}
		n, s, isNext := stringRangeNext(ex.Tuple)
		if !isNext || !body[n.Block()] || (nx != nil && nx != n) {
			return nil, nil, false
		}
		// the ranged character of THIS iteration: the Next must belong to this loop and not to an inner one
		if ap := e.(*ssa.Call); ap.Block() == nil || !body[ap.Block()] {
			return nil, nil, false
		}
		nx, src = n, s
		nBack++
	}
	if nx == nil || nBack == 0 || nInit == 0 || !definedOutside(nx.Iter, body) {
		return nil, nil, false
	}
	// no inner loop may hold the Next or the append (each would run more than once per iteration)
	for b := range body {
		if b != h && len(loopBodyOf(b)) > 1 {
			return nil, nil, false
		}
	}
	isCount := func(x ssa.Value) bool {
		c, isCall := x.(*ssa.Call)
		if !isCall {
			return false
		}
		b, isB := c.Call.Value.(*ssa.Builtin)
		return isB && b.Name() == "len" && len(c.Call.Args) == 1 && c.Call.Args[0] == ssa.Value(acc)
	}
	stops, okExits := loopExitsOnly(h, nx, func(cond ssa.Value) bool {
		kk, isStop := stopAt(cond, isCount, body)
		if !isStop || (k != nil && kk != k) {
			return false
		}
		k = kk
		return true
	})
	if !okExits || len(stops) == 0 || k == nil {
		return nil, nil, false
	}
	// the test is made in every iteration (it dominates every back edge): the count cannot pass K unseen
	for _, st := range stops {
		for i, pred := range h.Preds {
			_ = i
			if body[pred] && !st.Block().Dominates(pred) {
				return nil, nil, false
			}
		}
	}
	return src, k, true
}

// runeCutPoint: sl is s[:i] with i the byte offset at which a loop over s has counted K characters.
func runeCutPoint(sl *ssa.Slice) (src, k ssa.Value, ok bool) {
	if o, isSl := origValue(sl).(*ssa.Slice); isSl {
		sl = o
	}
	if sl.Low != nil {
		if c, isC := sl.Low.(*ssa.Const); !isC || c.Value == nil || constant.Sign(c.Value) != 0 {
			return nil, nil, false
		}
	}
	if sl.High == nil || sl.Max != nil {
		return nil, nil, false
	}
	ex, isEx := stripTrivialPhi(sl.High).(*ssa.Extract)
	if !isEx || ex.Index != 1 {
		return nil, nil, false
	}
	nx, s, isNext := stringRangeNext(ex.Tuple)
	if !isNext || s != sl.X {
		return nil, nil, false
	}
	// the header of the loop that holds the Next
	var h *ssa.BasicBlock
	for _, b := range nx.Block().Parent().Blocks {
		if body := loopBodyOf(b); len(body) > 1 && body[nx.Block()] {
			if h == nil || len(body) < len(loopBodyOf(h)) {
				h = b
			}
		}
	}
	if h == nil {
		return nil, nil, false
	}
	body := loopBodyOf(h)
	for b := range body {
		if b != h && len(loopBodyOf(b)) > 1 {
			return nil, nil, false
		}
	}
	isCounter := func(x ssa.Value) bool { return unitCounter(x, h) }
	// the slice is taken where a test `counter == K` of the same iteration holds
	var stopIf *ssa.If
	for b := range body {
		t, isIf := b.Instrs[len(b.Instrs)-1].(*ssa.If)
		if !isIf {
			continue
		}
		kk, isStop := stopAt(t.Cond, isCounter, body)
		if !isStop {
			continue
		}
		tb := b.Succs[0]
		if len(tb.Preds) != 1 || !tb.Dominates(sl.Block()) {
			continue
		}
		// the taken branch leaves the loop (a later iteration would have another i)
		if body[tb] {
			continue
		}
		stopIf, k = t, kk
	}
	if stopIf == nil || k == nil {
		return nil, nil, false
	}
	// the test must be met in the iteration where the count first reaches K: it is evaluated in every
	// iteration, i.e. its block dominates every back edge of the loop.
	for i, pred := range h.Preds {
		_ = i
		if body[pred] && !stopIf.Block().Dominates(pred) {
			return nil, nil, false
		}
	}
	return s, k, true
}

// unitCounter: x is a phi of the loop header h that is zero before the loop and itself plus one on every back edge.
func unitCounter(x ssa.Value, h *ssa.BasicBlock) bool {
	body := loopBodyOf(h)
	phi, isPhi := x.(*ssa.Phi)
	if !isPhi || phi.Block() != h {
		return false
	}
	nBack, nInit := 0, 0
	for i, e := range phi.Edges {
		if !body[h.Preds[i]] {
			c, isC := e.(*ssa.Const)
			if !isC || c.Value == nil || c.Value.Kind() != constant.Int || constant.Sign(c.Value) != 0 {
				return false
			}
			nInit++
			continue
		}
		inc, isBin := e.(*ssa.BinOp)
		if !isBin || inc.Op != token.ADD {
			return false
		}
		one, other := inc.Y, inc.X
		if other != ssa.Value(phi) {
			one, other = inc.X, inc.Y
		}
		c, isC := one.(*ssa.Const)
		if other != ssa.Value(phi) || !isC || c.Value == nil || !constant.Compare(c.Value, token.EQL, constant.MakeInt64(1)) {
			return false
		}
		nBack++
	}
	return nBack > 0 && nInit > 0
}

// characterLoopOnly: the loop of header h carries nothing but a character collector or a unit counter, and has
// no other effect (no store but the operand of an append, no call but builtins and the pure text packages):
// what follows the loop can depend on its iterations only through those two.
func characterLoopOnly(h *ssa.BasicBlock) bool {
	body := loopBodyOf(h)
	if len(body) < 2 {
		return false
	}
	for _, ins := range h.Instrs {
		phi, isPhi := ins.(*ssa.Phi)
		if !isPhi {
			continue
		}
		if unitCounter(phi, h) {
			continue
		}
		if _, _, ok := runeCollector(phi); ok {
			continue
		}
		return false
	}
	for b := range body {
		if b != h {
			for _, ins := range b.Instrs {
				if _, isPhi := ins.(*ssa.Phi); isPhi && len(loopBodyOf(b)) > 1 {
					return false
				}
			}
		}
		for _, ins := range b.Instrs {
			switch x := ins.(type) {
			case *ssa.Store:
				ia, isIA := x.Addr.(*ssa.IndexAddr)
				if !isIA {
					return false
				}
				if _, isAl := ia.X.(*ssa.Alloc); !isAl {
					return false
				}
			case *ssa.Call:
				if _, isB := x.Call.Value.(*ssa.Builtin); isB {
					continue
				}
				switch pkg, _ := staticCalleeName(x); pkg {
				case "unicode/utf8", "unicode", "strings":
				default:
					return false
				}
			case *ssa.Go, *ssa.Defer, *ssa.Send, *ssa.MapUpdate:
				return false
			}
		}
	}
	return true
}

// innermostLoopOf: the header of the smallest natural loop that holds b.
func innermostLoopOf(b *ssa.BasicBlock) *ssa.BasicBlock {
	var h *ssa.BasicBlock
	for _, c := range b.Parent().Blocks {
		if body := loopBodyOf(c); len(body) > 1 && body[b] {
			if h == nil || len(body) < len(loopBodyOf(h)) {
				h = c
			}
		}
	}
	return h
}

// loopStopCount: the loop that ranges with nx counts the characters it has passed (a unit counter, or the
// length of a collector) and is left as soon as the count equals K, tested in every iteration; returns K.
// Such a loop reaches the exhaustion of the range only for a text of fewer than K characters (K >= 0).
func loopStopCount(nx *ssa.Next) (ssa.Value, bool) {
	h := innermostLoopOf(nx.Block())
	if h == nil {
		return nil, false
	}
	body := loopBodyOf(h)
	for b := range body {
		if b != h && len(loopBodyOf(b)) > 1 {
			return nil, false
		}
	}
	isCount := func(x ssa.Value) bool {
		if unitCounter(x, h) {
			return true
		}
		c, isCall := x.(*ssa.Call)
		if !isCall {
			return false
		}
		b, isB := c.Call.Value.(*ssa.Builtin)
		if !isB || b.Name() != "len" || len(c.Call.Args) != 1 {
			return false
		}
		src, _, ok := runeCollector(c.Call.Args[0])
		rg, _ := nx.Iter.(*ssa.Range)
		return ok && rg != nil && src == rg.X && c.Call.Args[0] == stripTrivialPhi(c.Call.Args[0])
	}
	var k ssa.Value
	stops, ok := loopExitsOnly(h, nx, func(cond ssa.Value) bool {
		kk, isStop := stopAt(cond, isCount, body)
		if !isStop || (k != nil && kk != k) {
			return false
		}
		k = kk
		return true
	})
	if !ok || len(stops) == 0 || k == nil {
		return nil, false
	}
	for _, st := range stops {
		for _, pred := range h.Preds {
			if body[pred] && !st.Block().Dominates(pred) {
				return nil, false
			}
		}
	}
	return k, true
}
