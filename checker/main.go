// plushcheck decides structural clauses of the properties C01..C20 of
// gobuffalo/plush by static analysis of the source in /repo. See ../DESIGN.md.
package main

import (
	"flag"
	"fmt"
	"os"
	"path/filepath"
	"runtime/debug"
	"runtime/pprof"
	"sort"
	"strconv"
	"strings"
	"time"
)

// props maps a property id to the function that applies its rules.
var props = map[string]func(*Run){}

// notDecided is repeated in every evidence file so that a pass is never read
// as more than it is.
var notDecided = map[string]string{}

func register(id string, f func(*Run), undecided string) {
	props[id] = f
	notDecided[id] = undecided
}

var probeHook func(*World)

func main() {
	prop := flag.String("prop", "", "property id (C01..C20) or 'all'")
	tier := flag.String("tier", os.Getenv("VERIF_TIER"), "quick|thorough")
	list := flag.Bool("list", false, "list findings with keys (for triage)")
	noEvidence := flag.Bool("no-evidence", false, "do not write evidence/replay files")
	verbose := flag.Bool("v", false, "print every obligation")
	mutant := flag.String("mutant", "", "apply the named in-memory mutant before checking (self-test/debug)")
	dumpPatch := flag.String("dump-patch", "", "debug: apply the given unified diff in memory and write the patched files below -dump-out")
	dumpOut := flag.String("dump-out", "", "debug: output directory of -dump-patch")
	flag.Parse()
	if *dumpPatch != "" {
		b, err := os.ReadFile(*dumpPatch)
		if err != nil {
			fmt.Fprintln(os.Stderr, err)
			os.Exit(2)
		}
		ov, err := applyUnifiedDiff(repoDir(), string(b))
		if err != nil {
			fmt.Fprintln(os.Stderr, "APPLY-FAILED:", err)
			os.Exit(3)
		}
		for p, c := range ov {
			rel, _ := filepath.Rel(repoDir(), p)
			q := filepath.Join(*dumpOut, rel)
			os.MkdirAll(filepath.Dir(q), 0o755)
			os.WriteFile(q, c, 0o644)
		}
		return
	}
	if pf := os.Getenv("PLUSH_PROF"); pf != "" {
		if f, err := os.Create(pf); err == nil {
			pprof.StartCPUProfile(f)
			defer pprof.StopCPUProfile()
		}
	}
	if *tier == "" {
		*tier = "quick"
	}
	if *tier != "quick" && *tier != "thorough" {
		fmt.Fprintln(os.Stderr, "bad -tier")
		os.Exit(2)
	}
	seed, _ := strconv.Atoi(os.Getenv("VERIF_SEED"))
	procStart := time.Now()

	var ids []string
	if *prop == "all" {
		for id := range props {
			ids = append(ids, id)
		}
		sort.Strings(ids)
	} else if _, ok := props[*prop]; ok {
		ids = []string{*prop}
	} else {
		fmt.Fprintf(os.Stderr, "unknown property %q\n", *prop)
		os.Exit(2)
	}

	known, err := loadKnown()
	if err != nil {
		fmt.Fprintln(os.Stderr, "CHECK-ERROR:", err)
		os.Exit(2)
	}

	exit := 0
	configs := []LoadOpts{{}}
	if *tier == "thorough" {
		configs = append(configs, LoadOpts{Tags: "verif"}, LoadOpts{GOARCH: "386"})
	}
	worlds := make([]*World, len(configs))
	for i, c := range configs {
		if *mutant != "" {
			ov, err := mutantOverlay(*mutant)
			if err != nil {
				fmt.Fprintln(os.Stderr, "CHECK-ERROR:", err)
				os.Exit(2)
			}
			c.Overlay = ov
		}
		w, err := Load(c)
		if err != nil {
			// the tree does not type-check under this configuration: nothing
			// can be decided; fail closed.
			fmt.Printf("CHECK-ERROR: load failed (%+v): %v\n", c, err)
			for _, id := range ids {
				fmt.Printf("VIOLATION property=%s replay=%s\n", id, "load-error")
			}
			os.Exit(1)
		}
		worlds[i] = w
	}

	if probeHook != nil {
		probeHook(worlds[0])
		return
	}
	loadTime := time.Since(procStart)
	for _, id := range ids {
		start := time.Now().Add(-loadTime)
		var first *Run
		var firstRes Result
		perConfig := []map[string]interface{}{}
		var viol []Finding
		seenV := map[string]bool{}
		for i, w := range worlds {
			r, perr := runProp(w, id, *tier)
			if perr != nil {
				fmt.Printf("CHECK-ERROR: property=%s config=%s: %v\n", id, w.Config, perr)
				fmt.Printf("VIOLATION property=%s replay=%s\n", id, "checker-panic")
				exit = 1
				continue
			}
			res := r.classify(known)
			if i == 0 {
				first, firstRes = r, res
			}
			perConfig = append(perConfig, map[string]interface{}{"config": w.Config, "obligations": len(r.obls), "violations": len(res.Violations), "known": len(res.Known)})
			for _, f := range res.Violations {
				if !seenV[f.Key()] {
					seenV[f.Key()] = true
					viol = append(viol, f)
				}
			}
		}
		if first == nil {
			continue
		}
		extra := map[string]interface{}{"build_configs": perConfig}
		if *tier == "thorough" && *mutant == "" {
			st := selfTest(id)
			extra["mutant_selftest"] = st
			fmt.Printf("%s selftest: %v applied, %v killed, %v skipped, %d survived, %v equivalent ok, %d false alarm(s)\n", id,
				st["mutants_applied"], st["mutants_killed"], st["mutants_skipped"], len(st["mutants_survived"].([]string)), st["equivalent_rewrites_ok"], len(st["equivalent_false_alarms"].([]string)))
		}
		for _, f := range firstRes.Known {
			fmt.Printf("KNOWN-FINDING: property=%s %s %s %s (%s)\n", f.Prop, f.Rule, f.Func, f.Construct, f.Pos)
		}
		for _, s := range firstRes.Stale {
			fmt.Fprintf(os.Stderr, "STALE-FINDING: %s\n", s.Key())
		}
		for _, f := range viol {
			rp := "-"
			if !*noEvidence {
				rp = writeReplay(f, first.W)
			}
			fmt.Printf("REPORT property=%s rule=%s at %s in %s: %s\n    construct: %s\n", f.Prop, f.Rule, f.Pos, f.Func, f.Msg, f.Construct)
			for _, d := range f.Detail {
				fmt.Printf("    %s\n", d)
			}
			fmt.Printf("VIOLATION property=%s replay=%s\n", f.Prop, rp)
			exit = 1
		}
		if *verbose {
			for _, o := range first.obls {
				fmt.Printf("  [%v] %s %s | %s | %s | %s\n", o.Discharged, o.Rule, o.Pos, o.Func, o.Construct, o.How)
			}
			for _, n := range first.notes {
				fmt.Printf("  note: %s\n", n)
			}
		}
		if *list {
			for _, f := range first.finds {
				fmt.Printf("FINDING-KEY %s\n    %s: %s\n", f.Key(), f.Pos, f.Msg)
			}
		}
		firstRes.Violations = viol
		ev := first.evidence(firstRes, extra, time.Since(start).Seconds(), seed)
		if !*noEvidence {
			if err := writeEvidence(ev); err != nil {
				fmt.Fprintln(os.Stderr, "CHECK-ERROR: evidence:", err)
				exit = 2
			}
		}
		dis := 0
		for _, o := range first.obls {
			if o.Discharged {
				dis++
			}
		}
		fmt.Printf("%s %s: %d rule(s), %d obligation(s), %d discharged, %d known finding(s), %d violation(s), %d function(s) analysed, %.1fs\n",
			id, *tier, len(first.order), len(first.obls), dis, len(firstRes.Known), len(viol), len(first.funcs), time.Since(start).Seconds())
	}
	pprof.StopCPUProfile()
	os.Exit(exit)
}

func runProp(w *World, id, tier string) (r *Run, err error) {
	defer func() {
		if x := recover(); x != nil {
			err = fmt.Errorf("checker panic: %v\n%s", x, strings.Join(strings.Split(string(debug.Stack()), "\n")[:24], "\n"))
		}
	}()
	r = NewRun(w, id, tier)
	props[id](r)
	r.finish()
	return r, nil
}
