package main

// c07tolerance.go (C07.R5): an unknown identifier is falsy wherever it stands in a condition. The tolerance sites
// (if, else-if, !, && and ||) recognise the typed error by a plain type assertion on the error they receive, so
// the error must reach them as the very value that was made where the name was looked up: `user.Admin` and
// `user.IsAdmin()` with `user` unset are conditions, too, and the member and call evaluators stand between the
// lookup and the condition. Decided on the value graph of the evaluator package: while a tolerance site asserts
// the concrete type (and does not unwrap with errors.As), no function wraps the error of an expression evaluation
// into a new one (fmt.Errorf with it as an operand, errors.Join, a struct that holds it).

import (
	"go/types"

	"golang.org/x/tools/go/ssa"
)

func unknownIdentifierPassThroughRule(r *Run, rule string) {
	w := r.W
	w.SSA()
	m := w.coreModel()
	pkg := w.SSAPkg("")
	unk := w.NamedType("", "ErrUnknownIdentifier")
	if m == nil || m.expr == nil || pkg == nil || unk == nil {
		r.Lost(rule, "expression evaluator / ErrUnknownIdentifier")
		return
	}
	canon := m.canonicalSet()
	// tolerance by plain assertion?
	plain, viaAs := 0, 0
	for _, fn := range functionsOf(pkg) {
		for _, b := range fn.Blocks {
			for _, ins := range b.Instrs {
				switch x := ins.(type) {
				case *ssa.TypeAssert:
					if pt, ok := x.AssertedType.(*types.Pointer); ok && types.Identical(pt.Elem(), unk) && isErrorType(x.X.Type()) {
						plain++
					}
				case *ssa.Call:
					if pkgN, name := staticCalleeName(x); pkgN == "errors" && name == "As" {
						viaAs++
					}
				}
			}
		}
	}
	if plain == 0 {
		if viaAs > 0 {
			r.Ok(rule, "plush", "the typed error is recognised through errors.As", "-", "wrapping on the way does not hide it")
		} else {
			r.Lost(rule, "a site that recognises *ErrUnknownIdentifier")
		}
		return
	}
	isEvalErr := func(v ssa.Value) bool {
		for i := 0; i < 3; i++ {
			switch y := v.(type) {
			case *ssa.MakeInterface:
				v = y.X
				continue
			case *ssa.ChangeInterface:
				v = y.X
				continue
			}
			break
		}
		ex, ok := v.(*ssa.Extract)
		if !ok || !isErrorType(ex.Type()) {
			return false
		}
		c, ok := ex.Tuple.(*ssa.Call)
		if !ok {
			return false
		}
		g := c.Call.StaticCallee()
		return g != nil && (g == m.expr || (canon[g] && w.isNodeEvaluator(g)))
	}
	nWraps, nBad := 0, 0
	for _, fn := range functionsOf(pkg) {
		for _, b := range fn.Blocks {
			for _, ins := range b.Instrs {
				c, ok := ins.(*ssa.Call)
				if !ok {
					continue
				}
				pkgN, name := staticCalleeName(c)
				if !(pkgN == "fmt" && name == "Errorf") && !(pkgN == "errors" && name == "Join") {
					continue
				}
				nWraps++
				var ops []ssa.Value
				for _, a := range c.Call.Args {
					ops = append(ops, a)
					// the variadic operands
					if sl, isSl := a.(*ssa.Slice); isSl {
						if al, isAl := sl.X.(*ssa.Alloc); isAl && al.Referrers() != nil {
							for _, ref := range *al.Referrers() {
								if ia, isIA := ref.(*ssa.IndexAddr); isIA && ia.Referrers() != nil {
									for _, r2 := range *ia.Referrers() {
										if st, isSt := r2.(*ssa.Store); isSt && st.Addr == ssa.Value(ia) {
											ops = append(ops, st.Val)
										}
									}
								}
							}
						}
					}
				}
				for _, o := range ops {
					if isEvalErr(o) {
						nBad++
						r.Bad(rule, ssaName(fn), "the error of an expression evaluation is wrapped", w.Pos(c.Pos()),
							"the conditions recognise an unknown identifier by asserting the error's concrete type: wrapped on its way up (here, between the lookup and the condition) it is no longer recognised, and `if (user.Admin)` with user unset fails the render instead of being false")
					}
				}
			}
		}
	}
	if nBad == 0 {
		r.Ok(rule, "plush", "the error of an expression evaluation is handed on as it is", "-", "no fmt.Errorf / errors.Join has it as an operand while the tolerance sites assert the concrete type")
	}
	_ = nWraps
}
