package main

import "golang.org/x/tools/go/ssa"

func init() {
	register("C08", checkC08, "equality of the loop output with the unrolled rendering; the order in which reflect enumerates a Go map; a return inside a loop body (recorded under C16)")
}

func checkC08(r *Run) {
	r.Rule("R1", "the three element loops of the for evaluator (map, slice/array, iterator) have the same body summary: bind key, bind value, evaluate the block once, return on error, unwrap continue, unwrap break and leave after accumulating, append non-nil results in order; no Go continue skips the advance", 1)
	r.Rule("R2", "element order and keys: slice loop counts i from 0 by 1 below Len() and uses the same i as key and index; iterator loop counts from 0 by 1 per Next and ends at the first nil; map loop visits each key of MapKeys() once and binds MapIndex of that key", 1)
	r.Rule("R3", "a nil iterable yields (nil, nil); anything that is neither map, slice, array nor Iterator ends in a non-nil error", 1)
	r.Rule("R4", "break/continue objects carry the output accumulated so far plus the inner object's value, and the block evaluator returns in that iteration", 1)
	r.Rule("R5", "the parser's in-loop flag is saved on entry, set before anything that can parse a block, and restored by a defer on every exit; never reset to a constant", 1)
	forLoopsRuleSSA(r)
	forIterableRuleSSA(r)
	coreBlockRules(r, "R4", "R4")
	inLoopFlagRuleSSA(r, "R5")
	r.Rule("R6", "the output of a loop is collected in a buffer of the loop's own activation: not one kept in the evaluator or a package variable (an inner or a following loop would collect into the same storage)", 1)
	var forFn *ssa.Function
	if fe := r.W.evalMethod("ForExpression"); fe != nil {
		forFn = r.W.SSAFunc(fe)
	}
	activationBuffersRule(r, "R6", func(fn *ssa.Function) bool {
		base := fn
		for base.Parent() != nil {
			base = base.Parent()
		}
		return forFn != nil && base == forFn
	}, "for evaluator")
}

// ---- R4 ---------------------------------------------------------------------

// ---- R5 ---------------------------------------------------------------------
