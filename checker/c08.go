package main

import (
	"fmt"
	"go/ast"
	"go/token"
	"go/types"
	"sort"
	"strings"
)

func init() {
	register("C08", checkC08, "equality of the loop output with the unrolled rendering; the order in which reflect enumerates a Go map; a return inside a loop body (recorded under C16)")
}

func checkC08(r *Run) {
	r.Rule("R1", "the three element loops of the for evaluator (map, slice/array, iterator) have the same body summary: bind key, bind value, evaluate the block once, return on error, unwrap continue, unwrap break and leave after accumulating, append non-nil results in order; no Go continue skips the advance", 1)
	r.Rule("R2", "element order and keys: slice loop counts i from 0 by 1 below Len() and uses the same i as key and index; iterator loop counts from 0 by 1 per Next and ends at the first nil; map loop visits each key of MapKeys() once and binds MapIndex of that key", 1)
	r.Rule("R3", "a nil iterable yields (nil, nil); anything that is neither map, slice, array nor Iterator ends in a non-nil error", 1)
	r.Rule("R4", "break/continue objects carry the output accumulated so far plus the inner object's value, and the block evaluator returns in that iteration", 1)
	r.Rule("R5", "the parser's in-loop flag is saved on entry, set before anything that can parse a block, and restored by a defer on every exit; never reset to a constant", 1)
	forLoopsRuleSSA(r)
	forIterableRuleSSA(r)
	coreBlockRules(r, "R4", "R4")
	inLoopFlagRuleSSA(r, "R5")
}

type loopSummary struct {
	kind     string
	loop     *ast.ForStmt
	features []string
	problems []string
	keyExpr  ast.Expr
	valExpr  ast.Expr
}

func forLoopsRule(r *Run) {
	w := r.W
	f := w.evalMethod("ForExpression")
	blockEval := w.evalMethod("BlockStatement")
	if f == nil || blockEval == nil {
		r.Lost("R1", "for evaluator / block evaluator")
		return
	}
	info := f.Pkg.TypesInfo
	node := f.Obj.Type().(*types.Signature).Params().At(0)
	ctxF := w.compilerField("ctx")
	// the element loops: for statements whose body (not a nested loop) evaluates node.Block
	var loops []*ast.ForStmt
	inspectBody(f.Decl.Body, true, func(n ast.Node) bool {
		l, ok := n.(*ast.ForStmt)
		if !ok {
			return true
		}
		for _, st := range l.Body.List {
			for _, c := range callsIn(st, true) {
				if calleeOf(info, c) == blockEval.Obj {
					loops = append(loops, l)
					return true
				}
			}
		}
		return true
	})
	if len(loops) != 3 {
		r.Bad("R1", f.Name(), fmt.Sprintf("%d element loops", len(loops)), w.Pos(f.Decl.Pos()), "expected the three sibling element loops (map, slice/array, iterator)")
	}
	var sums []loopSummary
	for _, l := range loops {
		s := loopSummary{loop: l}
		var retVar types.Object
		step := 0
		add := func(feat string) { s.features = append(s.features, feat) }
		prob := func(p string) { s.problems = append(s.problems, p) }
		nBlock := 0
		for _, st := range l.Body.List {
			switch x := st.(type) {
			case *ast.ExprStmt:
				c, ok := x.X.(*ast.CallExpr)
				if !ok {
					prob("unexpected statement " + short(w.Fset, st))
					continue
				}
				cal := calleeOf(info, c)
				sel, _ := unparen(c.Fun).(*ast.SelectorExpr)
				if cal != nil && cal.Name() == "Set" && sel != nil && len(c.Args) == 2 {
					if _, fld := fieldOf(info, sel.X); fld != ctxF {
						prob("Set on something other than the current scope")
						continue
					}
					if x2, fld := fieldOf(info, c.Args[0]); fld != nil && objOf(info, x2) == node {
						switch fld.Name() {
						case "KeyName":
							add("bind-key")
							s.keyExpr = c.Args[1]
						case "ValueName":
							add("bind-value")
							s.valExpr = c.Args[1]
						default:
							prob("binds " + fld.Name())
						}
						if step > 0 {
							prob("binding after the block was evaluated")
						}
						continue
					}
				}
				prob("unexpected call " + short(w.Fset, c))
			case *ast.AssignStmt:
				// res, err := evalBlock(node.Block) | k := keys[i] | v := ... | breakLoop := false | ii = it.Next()
				if len(x.Rhs) == 1 {
					if c, ok := x.Rhs[0].(*ast.CallExpr); ok && calleeOf(info, c) == blockEval.Obj {
						nBlock++
						if bx, fld := fieldOf(info, c.Args[0]); fld == nil || fld.Name() != "Block" || objOf(info, bx) != node {
							prob("evaluates something other than node.Block")
						}
						add("eval-block")
						step = 1
						if len(x.Lhs) == 2 {
							retVar = objOf(info, x.Lhs[0])
						}
						continue
					}
				}
				// harmless locals
			case *ast.IfStmt:
				cond := short(w.Fset, x.Cond)
				switch {
				case isErrNotNil(info, x.Cond) && len(x.Body.List) == 1 && isReturnNilErr(info, x.Body.List[0]):
					add("return-on-error")
				case isNotNilOf(info, x.Cond, retVar) && len(x.Body.List) == 1 && isAppendOf(info, x.Body.List[0], retVar):
					add("accumulate-non-nil")
				case len(x.Body.List) == 1 && isBreak(x.Body.List[0]) && objOf(info, x.Cond) != nil:
					add("leave-if-break-flag")
				default:
					prob("unexpected if " + cond)
				}
			case *ast.TypeSwitchStmt:
				// switch val := res.(type) { case continueObject: res = val.Value; case breakObject: flag = true; res = val.Value }
				for _, c := range x.Body.List {
					cc := c.(*ast.CaseClause)
					if len(cc.List) != 1 {
						prob("type switch arm with several types or default")
						continue
					}
					tn := typeStr(info.Types[cc.List[0]].Type)
					sets := map[string]bool{}
					for _, bs := range cc.Body {
						if as, ok := bs.(*ast.AssignStmt); ok && len(as.Lhs) == 1 && len(as.Rhs) == 1 {
							if objOf(info, as.Lhs[0]) == retVar {
								if bx, fld := fieldOf(info, as.Rhs[0]); fld != nil && fld.Name() == "Value" && objOf(info, bx) == info.Implicits[cc] {
									sets["res=val.Value"] = true
									continue
								}
							}
							if tv := info.Types[as.Rhs[0]]; tv.Value != nil && tv.Value.ExactString() == "true" {
								sets["flag=true"] = true
								continue
							}
						}
						if b, ok := bs.(*ast.BranchStmt); ok && b.Tok == token.BREAK {
							prob("'break' inside the type switch only leaves the switch, not the loop")
							continue
						}
						sets["other:"+short(w.Fset, bs)] = true
					}
					var ks []string
					for k := range sets {
						ks = append(ks, k)
					}
					sort.Strings(ks)
					add("on-" + strings.TrimPrefix(tn, "plush.") + ":" + strings.Join(ks, ","))
				}
			case *ast.IncDecStmt:
				// counter advance at the end of the body
				add("advance:" + short(w.Fset, st))
			case *ast.BranchStmt, *ast.ReturnStmt:
				prob("unexpected " + short(w.Fset, st))
			default:
				prob("unexpected statement " + short(w.Fset, st))
			}
		}
		if nBlock != 1 {
			prob(fmt.Sprintf("block evaluated %d times per iteration", nBlock))
		}
		// Go continue/goto anywhere in the body
		inspectBody(l.Body, true, func(n ast.Node) bool {
			if b, ok := n.(*ast.BranchStmt); ok && (b.Tok == token.CONTINUE || b.Tok == token.GOTO) {
				prob("Go '" + b.Tok.String() + "' in the loop body (skips the statements that advance the loop)")
			}
			if ret, ok := n.(*ast.ReturnStmt); ok {
				if len(ret.Results) != 2 || !isNilIdent(info, ret.Results[0]) {
					prob("return other than (nil, err) in the loop body")
				}
			}
			return true
		})
		// kind
		switch {
		case l.Init == nil && l.Post == nil:
			s.kind = "iterator"
		default:
			src := short(w.Fset, l.Cond)
			if strings.Contains(src, "len(") {
				s.kind = "map"
			} else {
				s.kind = "slice"
			}
		}
		sums = append(sums, s)
	}
	// the summaries without the advance statements must be equal and equal the expectation
	want := []string{"bind-key", "bind-value", "eval-block", "return-on-error", "on-continueObject:res=val.Value", "on-breakObject:flag=true,res=val.Value", "accumulate-non-nil", "leave-if-break-flag"}
	for _, s := range sums {
		var core []string
		for _, ft := range s.features {
			if !strings.HasPrefix(ft, "advance:") {
				core = append(core, ft)
			}
		}
		con := s.kind + " loop body"
		if len(s.problems) > 0 {
			r.Bad("R1", f.Name(), con, w.Pos(s.loop.Pos()), "the loop body deviates from its siblings: "+strings.Join(s.problems, "; "))
			continue
		}
		if strings.Join(core, " | ") == strings.Join(want, " | ") {
			r.Ok("R1", f.Name(), con, w.Pos(s.loop.Pos()), strings.Join(core, " | "))
		} else {
			r.Bad("R1", f.Name(), con, w.Pos(s.loop.Pos()),
				"summary ["+strings.Join(core, " | ")+"] differs from the sibling expectation ["+strings.Join(want, " | ")+"]")
		}
	}
	// R2
	for _, s := range sums {
		l := s.loop
		con := s.kind + " loop induction"
		switch s.kind {
		case "slice", "map":
			iv, bound, ok := countedFromZero(info, l)
			if !ok {
				r.Bad("R2", f.Name(), con, w.Pos(l.Pos()), "the loop must count an index from 0 by +1 below the length")
				continue
			}
			if s.kind == "slice" {
				// bound: X.Len(); key = iv; value = X.Index(iv).Interface()
				okB := false
				var recv ast.Expr
				if c, ok := unparen(bound).(*ast.CallExpr); ok && methodIs(calleeOf(info, c), "reflect", "Value", "Len") {
					recv = unparen(c.Fun).(*ast.SelectorExpr).X
					okB = true
				}
				okK := s.keyExpr != nil && objOf(info, s.keyExpr) == iv
				okV := valueIsIndexOf(info, l, s.valExpr, recv, iv)
				if okB && okK && okV {
					r.Ok("R2", f.Name(), con, w.Pos(l.Pos()), "i from 0 by 1 below Len(); key i; value Index(i)")
				} else {
					r.Bad("R2", f.Name(), con, w.Pos(l.Pos()), "the slice loop must bind the running index as key and the element at that same index as value")
				}
			} else {
				// bound: len(keys) with keys := X.MapKeys(); k := keys[iv]; v := X.MapIndex(k); key k.Interface(); value v.Interface()
				okAll := mapLoopShape(info, f, l, s, iv, bound)
				if okAll {
					r.Ok("R2", f.Name(), con, w.Pos(l.Pos()), "each key of MapKeys() once; value is MapIndex of that key")
				} else {
					r.Bad("R2", f.Name(), con, w.Pos(l.Pos()), "the map loop must visit every key of MapKeys() once and bind that key together with MapIndex of that same key")
				}
			}
		case "iterator":
			okAll := iteratorLoopShape(info, f, l, s)
			if okAll {
				r.Ok("R2", f.Name(), con, w.Pos(l.Pos()), "counter from 0, +1 and Next() at the end of every iteration, loop ends at the first nil")
			} else {
				r.Bad("R2", f.Name(), con, w.Pos(l.Pos()), "the iterator loop must bind a counter that starts at 0 and is incremented exactly once per element, fetch the next element at the end of every iteration, and stop at the first nil")
			}
		}
	}
}

// forIterableRule (R3): a nil iterable yields (nil, nil); anything that cannot be iterated is an error.
func forIterableRule(r *Run) {
	w := r.W
	f := w.evalMethod("ForExpression")
	if f == nil {
		r.Lost("R3", "for evaluator")
		return
	}
	info := f.Pkg.TypesInfo
	// R3
	nilOK, errOK := false, false
	inspectBody(f.Decl.Body, true, func(n ast.Node) bool {
		cc, ok := n.(*ast.CaseClause)
		if !ok || cc.List != nil {
			return true
		}
		if _, isSw := w.Parent(w.Parent(cc)).(*ast.SwitchStmt); !isSw {
			return true
		}
		if len(cc.Body) == 0 {
			return true
		}
		if ifs, ok := cc.Body[0].(*ast.IfStmt); ok {
			if be, ok := unparen(ifs.Cond).(*ast.BinaryExpr); ok && be.Op == token.EQL && isNilIdent(info, be.Y) && len(ifs.Body.List) == 1 {
				if ret, ok := ifs.Body.List[0].(*ast.ReturnStmt); ok && len(ret.Results) == 2 && isNilIdent(info, ret.Results[0]) && isNilIdent(info, ret.Results[1]) {
					nilOK = true
				}
			}
		}
		if ret, ok := cc.Body[len(cc.Body)-1].(*ast.ReturnStmt); ok && len(ret.Results) == 2 && !isNilIdent(info, ret.Results[1]) {
			if c, ok := unparen(ret.Results[1]).(*ast.CallExpr); ok && funcIs(calleeOf(info, c), "fmt", "Errorf") {
				errOK = true
			}
		}
		return true
	})
	if nilOK {
		r.Ok("R3", f.Name(), "nil iterable renders nothing", w.Pos(f.Decl.Pos()), "if iter == nil { return nil, nil }")
	} else {
		r.Bad("R3", f.Name(), "nil iterable", w.Pos(f.Decl.Pos()), "a nil iterable must yield (nil, nil)")
	}
	if errOK {
		r.Ok("R3", f.Name(), "non-iterable is an error", w.Pos(f.Decl.Pos()), "default arm ends in fmt.Errorf")
	} else {
		r.Bad("R3", f.Name(), "non-iterable value", w.Pos(f.Decl.Pos()), "a value that is neither map, slice, array nor Iterator must be an error")
	}
}

func isErrNotNil(info *types.Info, e ast.Expr) bool {
	be, ok := unparen(e).(*ast.BinaryExpr)
	if !ok || be.Op != token.NEQ || !isNilIdent(info, be.Y) {
		return false
	}
	tv, ok := info.Types[be.X]
	return ok && isErrorType(tv.Type)
}

func isReturnNilErr(info *types.Info, st ast.Stmt) bool {
	ret, ok := st.(*ast.ReturnStmt)
	if !ok || len(ret.Results) != 2 || !isNilIdent(info, ret.Results[0]) {
		return false
	}
	tv, ok := info.Types[ret.Results[1]]
	return ok && isErrorType(tv.Type) && !isNilIdent(info, ret.Results[1])
}

func isNotNilOf(info *types.Info, e ast.Expr, o types.Object) bool {
	be, ok := unparen(e).(*ast.BinaryExpr)
	return ok && be.Op == token.NEQ && isNilIdent(info, be.Y) && o != nil && objOf(info, be.X) == o
}

func isAppendOf(info *types.Info, st ast.Stmt, elem types.Object) bool {
	as, ok := st.(*ast.AssignStmt)
	if !ok || len(as.Lhs) != 1 || len(as.Rhs) != 1 {
		return false
	}
	c, ok := unparen(as.Rhs[0]).(*ast.CallExpr)
	if !ok || builtinName(info, c) != "append" || len(c.Args) != 2 {
		return false
	}
	return sameObjExpr(info, as.Lhs[0], c.Args[0]) && objOf(info, c.Args[1]) == elem
}

func isBreak(st ast.Stmt) bool {
	b, ok := st.(*ast.BranchStmt)
	return ok && b.Tok == token.BREAK && b.Label == nil
}

// countedFromZero: `for i := 0; i < B; i++` (or the accepted equivalent
// headers i != B, B > i); returns the induction variable and the bound.
func countedFromZero(info *types.Info, l *ast.ForStmt) (types.Object, ast.Expr, bool) {
	as, ok := l.Init.(*ast.AssignStmt)
	if !ok || len(as.Lhs) != 1 || len(as.Rhs) != 1 {
		return nil, nil, false
	}
	if v, ok := constInt(info, as.Rhs[0]); !ok || v != 0 {
		return nil, nil, false
	}
	iv := objOf(info, as.Lhs[0])
	inc, ok := l.Post.(*ast.IncDecStmt)
	if !ok || inc.Tok != token.INC || objOf(info, inc.X) != iv {
		if pa, ok := l.Post.(*ast.AssignStmt); ok && pa.Tok == token.ADD_ASSIGN && objOf(info, pa.Lhs[0]) == iv {
			if v, ok := constInt(info, pa.Rhs[0]); ok && v == 1 {
				goto condCheck
			}
		}
		return nil, nil, false
	}
condCheck:
	be, ok := unparen(l.Cond).(*ast.BinaryExpr)
	if !ok {
		return nil, nil, false
	}
	x, y, op := be.X, be.Y, be.Op
	if objOf(info, y) == iv {
		x, y, op = y, x, flipOp(op)
	}
	if objOf(info, x) != iv || !(op == token.LSS || op == token.NEQ) {
		return nil, nil, false
	}
	// the induction variable is not written in the body
	written := false
	inspectBody(l.Body, false, func(n ast.Node) bool {
		switch s := n.(type) {
		case *ast.AssignStmt:
			for _, lh := range s.Lhs {
				if objOf(info, lh) == iv {
					written = true
				}
			}
		case *ast.IncDecStmt:
			if objOf(info, s.X) == iv {
				written = true
			}
		}
		return true
	})
	return iv, y, !written
}

// valueIsIndexOf: e is recv.Index(iv).Interface(), directly or through a
// local assigned once in the loop body.
func valueIsIndexOf(info *types.Info, l *ast.ForStmt, e, recv ast.Expr, iv types.Object) bool {
	if e == nil || recv == nil {
		return false
	}
	resolve := func(x ast.Expr) ast.Expr {
		if o := objOf(info, x); o != nil {
			for _, st := range l.Body.List {
				if as, ok := st.(*ast.AssignStmt); ok && len(as.Lhs) == 1 && len(as.Rhs) == 1 && objOf(info, as.Lhs[0]) == o {
					return as.Rhs[0]
				}
			}
		}
		return x
	}
	c, ok := unparen(e).(*ast.CallExpr)
	if !ok || !methodIs(calleeOf(info, c), "reflect", "Value", "Interface") {
		return false
	}
	inner := resolve(unparen(c.Fun).(*ast.SelectorExpr).X)
	ic, ok := unparen(inner).(*ast.CallExpr)
	if !ok || !methodIs(calleeOf(info, ic), "reflect", "Value", "Index") || len(ic.Args) != 1 {
		return false
	}
	return objOf(info, ic.Args[0]) == iv && sameObjExpr(info, unparen(ic.Fun).(*ast.SelectorExpr).X, recv)
}

func mapLoopShape(info *types.Info, f *FuncInfo, l *ast.ForStmt, s loopSummary, iv types.Object, bound ast.Expr) bool {
	// bound = len(keys)
	c, ok := unparen(bound).(*ast.CallExpr)
	if !ok || builtinName(info, c) != "len" {
		return false
	}
	keys := objOf(info, c.Args[0])
	if keys == nil {
		return false
	}
	// keys := X.MapKeys() (single definition in the function)
	var mapRecv ast.Expr
	nDef := 0
	inspectBody(f.Decl.Body, true, func(n ast.Node) bool {
		if as, ok := n.(*ast.AssignStmt); ok {
			for i, lh := range as.Lhs {
				if objOf(info, lh) == keys && i < len(as.Rhs) {
					nDef++
					if kc, ok := unparen(as.Rhs[i]).(*ast.CallExpr); ok && methodIs(calleeOf(info, kc), "reflect", "Value", "MapKeys") {
						mapRecv = unparen(kc.Fun).(*ast.SelectorExpr).X
					}
				}
			}
		}
		return true
	})
	if nDef != 1 || mapRecv == nil {
		return false
	}
	// k := keys[iv]; v := X.MapIndex(k)
	var kObj, vObj types.Object
	for _, st := range l.Body.List {
		as, ok := st.(*ast.AssignStmt)
		if !ok || len(as.Lhs) != 1 || len(as.Rhs) != 1 {
			continue
		}
		if ix, ok := unparen(as.Rhs[0]).(*ast.IndexExpr); ok && objOf(info, ix.X) == keys && objOf(info, ix.Index) == iv {
			kObj = objOf(info, as.Lhs[0])
		}
		if mc, ok := unparen(as.Rhs[0]).(*ast.CallExpr); ok && methodIs(calleeOf(info, mc), "reflect", "Value", "MapIndex") && len(mc.Args) == 1 {
			if kObj != nil && objOf(info, mc.Args[0]) == kObj && sameObjExpr(info, unparen(mc.Fun).(*ast.SelectorExpr).X, mapRecv) {
				vObj = objOf(info, as.Lhs[0])
			}
		}
	}
	if kObj == nil || vObj == nil {
		return false
	}
	isIface := func(e ast.Expr, o types.Object) bool {
		c, ok := unparen(e).(*ast.CallExpr)
		if !ok || !methodIs(calleeOf(info, c), "reflect", "Value", "Interface") {
			return false
		}
		return objOf(info, unparen(c.Fun).(*ast.SelectorExpr).X) == o
	}
	return isIface(s.keyExpr, kObj) && isIface(s.valExpr, vObj)
}

func iteratorLoopShape(info *types.Info, f *FuncInfo, l *ast.ForStmt, s loopSummary) bool {
	// cond: ii != nil
	be, ok := unparen(l.Cond).(*ast.BinaryExpr)
	if !ok || be.Op != token.NEQ || !isNilIdent(info, be.Y) {
		return false
	}
	elem := objOf(info, be.X)
	if elem == nil || s.valExpr == nil || objOf(info, s.valExpr) != elem {
		return false
	}
	counter := objOf(info, s.keyExpr)
	if counter == nil {
		return false
	}
	// last two statements: ii = it.Next(); i++   (either order)
	n := len(l.Body.List)
	if n < 2 {
		return false
	}
	gotNext, gotInc := false, false
	var itRecv ast.Expr
	for _, st := range l.Body.List[n-2:] {
		switch x := st.(type) {
		case *ast.AssignStmt:
			if len(x.Lhs) == 1 && len(x.Rhs) == 1 && x.Tok == token.ASSIGN && objOf(info, x.Lhs[0]) == elem {
				if c, ok := unparen(x.Rhs[0]).(*ast.CallExpr); ok && len(c.Args) == 0 {
					if cal := calleeOf(info, c); cal != nil && cal.Name() == "Next" {
						gotNext = true
						itRecv = unparen(c.Fun).(*ast.SelectorExpr).X
					}
				}
			}
		case *ast.IncDecStmt:
			if x.Tok == token.INC && objOf(info, x.X) == counter {
				gotInc = true
			}
		}
	}
	if !gotNext || !gotInc {
		return false
	}
	// no other writes to counter/elem in the body
	writes := 0
	inspectBody(l.Body, false, func(n ast.Node) bool {
		switch x := n.(type) {
		case *ast.AssignStmt:
			for _, lh := range x.Lhs {
				if o := objOf(info, lh); o == counter || o == elem {
					writes++
				}
			}
		case *ast.IncDecStmt:
			if objOf(info, x.X) == counter {
				writes++
			}
		}
		return true
	})
	if writes != 2 {
		return false
	}
	// before the loop: counter := 0 and ii := it.Next() on the same iterator
	blk, ok := f.Pkg.TypesInfo, true
	_ = blk
	parent := parentBlock(f, l)
	if parent == nil {
		return false
	}
	okC, okE := false, false
	for _, st := range parent {
		if st == ast.Stmt(l) {
			break
		}
		as, isAs := st.(*ast.AssignStmt)
		if !isAs || len(as.Lhs) != 1 || len(as.Rhs) != 1 {
			continue
		}
		if objOf(info, as.Lhs[0]) == counter {
			v, isC := constInt(info, as.Rhs[0])
			okC = isC && v == 0
		}
		if objOf(info, as.Lhs[0]) == elem {
			if c, isCall := unparen(as.Rhs[0]).(*ast.CallExpr); isCall {
				if cal := calleeOf(info, c); cal != nil && cal.Name() == "Next" && sameObjExpr(info, unparen(c.Fun).(*ast.SelectorExpr).X, itRecv) {
					okE = true
				}
			}
		}
	}
	return okC && okE && ok
}

func parentBlock(f *FuncInfo, target ast.Stmt) []ast.Stmt {
	var out []ast.Stmt
	ast.Inspect(f.Decl.Body, func(n ast.Node) bool {
		var list []ast.Stmt
		switch x := n.(type) {
		case *ast.BlockStmt:
			list = x.List
		case *ast.CaseClause:
			list = x.Body
		}
		for _, st := range list {
			if st == target {
				out = list
			}
		}
		return out == nil
	})
	return out
}

// ---- R4 ---------------------------------------------------------------------

func blockExitRule(r *Run, rule string) {
	w := r.W
	f := w.evalMethod("BlockStatement")
	if f == nil {
		r.Lost(rule, "block evaluator")
		return
	}
	info := f.Pkg.TypesInfo
	// the accumulated slice: the local appended to in the loop
	var loop *ast.RangeStmt
	for _, st := range f.Decl.Body.List {
		if rs, ok := st.(*ast.RangeStmt); ok {
			loop = rs
		}
	}
	if loop == nil {
		r.Lost(rule, "statement loop of the block evaluator")
		return
	}
	var acc types.Object
	inspectBody(loop.Body, true, func(n ast.Node) bool {
		if as, ok := n.(*ast.AssignStmt); ok && len(as.Lhs) == 1 && len(as.Rhs) == 1 {
			if c, ok := unparen(as.Rhs[0]).(*ast.CallExpr); ok && builtinName(info, c) == "append" && sameObjExpr(info, as.Lhs[0], c.Args[0]) {
				if acc == nil {
					acc = objOf(info, as.Lhs[0])
				}
			}
		}
		return true
	})
	if acc == nil {
		r.Lost(rule, "accumulated results of the block evaluator")
		return
	}
	seen := map[string]bool{}
	inspectBody(loop.Body, true, func(n ast.Node) bool {
		cc, ok := n.(*ast.CaseClause)
		if !ok || len(cc.List) != 1 {
			return true
		}
		if _, isTS := w.Parent(w.Parent(cc)).(*ast.TypeSwitchStmt); !isTS {
			return true
		}
		tn := strings.TrimPrefix(typeStr(info.Types[cc.List[0]].Type), "plush.")
		if tn != "continueObject" && tn != "breakObject" {
			return true
		}
		seen[tn] = true
		bound := info.Implicits[cc]
		// a composite literal of the same type whose Value mentions both acc and bound.Value
		good := false
		inspectBody(cc, true, func(m ast.Node) bool {
			cl, ok := m.(*ast.CompositeLit)
			if !ok || strings.TrimPrefix(typeStr(info.Types[cl].Type), "plush.") != tn {
				return true
			}
			for _, e := range cl.Elts {
				kv, ok := e.(*ast.KeyValueExpr)
				if !ok {
					continue
				}
				if k, _ := kv.Key.(*ast.Ident); k == nil || k.Name != "Value" {
					continue
				}
				usesAcc, usesInner := false, false
				ast.Inspect(kv.Value, func(x ast.Node) bool {
					if id, ok := x.(*ast.Ident); ok && info.Uses[id] == acc {
						usesAcc = true
					}
					if e2, ok := x.(ast.Expr); ok {
						if bx, fld := fieldOf(info, e2); fld != nil && fld.Name() == "Value" && objOf(info, bx) == bound {
							usesInner = true
						}
					}
					return true
				})
				// the accumulated part must come first
				if c, ok := unparen(kv.Value).(*ast.CallExpr); ok && builtinName(info, c) == "append" && len(c.Args) == 2 {
					if objOf(info, c.Args[0]) != acc {
						usesAcc = false
					}
				}
				good = usesAcc && usesInner
			}
			return true
		})
		con := tn + " keeps the output produced so far"
		if good {
			r.Ok(rule, f.Name(), con, w.Pos(cc.Pos()), "Value: append(<accumulated>, <inner>.Value...)")
		} else {
			r.Bad(rule, f.Name(), con, w.Pos(cc.Pos()), "a "+tn+" leaving the block must carry what the block already produced followed by what the inner object carried")
		}
		return true
	})
	for _, tn := range []string{"continueObject", "breakObject"} {
		if !seen[tn] {
			r.Bad(rule, f.Name(), "no arm for "+tn, w.Pos(loop.Pos()), "the block evaluator must fold its partial output into "+tn)
		}
	}
	// the exit branch returns inside the loop
	okRet := false
	inspectBody(loop.Body, true, func(n ast.Node) bool {
		if ret, ok := n.(*ast.ReturnStmt); ok && len(ret.Results) == 2 && isNilIdent(info, ret.Results[1]) {
			okRet = true
		}
		return true
	})
	if okRet {
		r.Ok(rule, f.Name(), "exit object ends the block in the same iteration", w.Pos(loop.Pos()), "return <object>, nil inside the loop")
	} else {
		r.Bad(rule, f.Name(), "exit object does not end the block", w.Pos(loop.Pos()), "once a statement yields a break/continue/return object no later statement of the block may run")
	}
}

// ---- R5 ---------------------------------------------------------------------

func inLoopFlagRule(r *Run, rule string) {
	w := r.W
	pm := w.parserModel()
	if len(pm.problems) > 0 {
		r.Lost(rule, "parser model")
		return
	}
	info := pm.info
	// the bool field of the parser
	var flag *types.Var
	st := pm.typ.Underlying().(*types.Struct)
	for i := 0; i < st.NumFields(); i++ {
		if isBasicKind(st.Field(i).Type(), types.Bool) {
			flag = st.Field(i)
		}
	}
	if flag == nil {
		r.Lost(rule, "in-loop flag of the parser")
		return
	}
	canParseBlock := func(c *ast.CallExpr) bool {
		cal := calleeOf(info, c)
		if cal == nil {
			return pm.isRegistryCall(c)
		}
		return cal == pm.blockParse.Obj || cal == pm.pratt.Obj || cal == pm.stmtParse.Obj
	}
	// named restore helpers: parser methods whose whole body is `<recv>.flag = <parameter>`
	restoreHelper := map[*types.Func]int{}
	for _, f := range pm.methods {
		if len(f.Decl.Body.List) != 1 {
			continue
		}
		as, ok := f.Decl.Body.List[0].(*ast.AssignStmt)
		if !ok || len(as.Lhs) != 1 || len(as.Rhs) != 1 {
			continue
		}
		if _, fld := fieldOf(info, as.Lhs[0]); fld != flag {
			continue
		}
		sig := f.Obj.Type().(*types.Signature)
		for i := 0; i < sig.Params().Len(); i++ {
			if objOf(info, as.Rhs[0]) == sig.Params().At(i) {
				restoreHelper[f.Obj] = i
			}
		}
	}
	for _, f := range pm.methods {
		if _, isHelper := restoreHelper[f.Obj]; isHelper {
			continue
		}
		type store struct {
			as       *ast.AssignStmt
			rhs      ast.Expr
			deferred bool
		}
		var stores []store
		// `defer helper(p.flag)` / `defer helper(saved)`: the argument is evaluated at the defer statement
		var helperRestoreAt token.Pos
		inspectBody(f.Decl.Body, false, func(n ast.Node) bool {
			if d, ok := n.(*ast.DeferStmt); ok {
				if pi, isH := restoreHelper[calleeOf(info, d.Call)]; isH && pi < len(d.Call.Args) {
					if _, fld := fieldOf(info, d.Call.Args[pi]); fld == flag {
						helperRestoreAt = d.Pos()
					}
				}
			}
			return true
		})
		var walk func(n ast.Node, deferred bool)
		walk = func(n ast.Node, deferred bool) {
			ast.Inspect(n, func(m ast.Node) bool {
				switch x := m.(type) {
				case *ast.DeferStmt:
					if fl, ok := x.Call.Fun.(*ast.FuncLit); ok {
						walk(fl.Body, true)
						return false
					}
				case *ast.AssignStmt:
					for i, l := range x.Lhs {
						if _, fld := fieldOf(info, l); fld == flag && i < len(x.Rhs) {
							stores = append(stores, store{x, x.Rhs[i], deferred})
						}
					}
				}
				return true
			})
		}
		walk(f.Decl.Body, false)
		if len(stores) == 0 {
			continue
		}
		// saved local
		var saved types.Object
		var savePos token.Pos
		inspectBody(f.Decl.Body, false, func(n ast.Node) bool {
			if as, ok := n.(*ast.AssignStmt); ok && len(as.Lhs) == 1 && len(as.Rhs) == 1 {
				if _, fld := fieldOf(info, as.Rhs[0]); fld == flag {
					saved = objOf(info, as.Lhs[0])
					savePos = as.Pos()
				}
			}
			return true
		})
		var firstBlockParse token.Pos
		for _, c := range callsIn(f.Decl.Body, false) {
			if canParseBlock(c) && (!firstBlockParse.IsValid() || c.Pos() < firstBlockParse) {
				firstBlockParse = c.Pos()
			}
		}
		hasRestore := false
		for _, s := range stores {
			if s.deferred && saved != nil && objOf(info, s.rhs) == saved {
				hasRestore = true
			}
		}
		// a deferred helper call whose argument is a saved local
		inspectBody(f.Decl.Body, false, func(n ast.Node) bool {
			if d, ok := n.(*ast.DeferStmt); ok {
				if pi, isH := restoreHelper[calleeOf(info, d.Call)]; isH && pi < len(d.Call.Args) && saved != nil && objOf(info, d.Call.Args[pi]) == saved {
					hasRestore = true
				}
			}
			return true
		})
		for _, s := range stores {
			con := "store " + short(w.Fset, s.as)
			if s.deferred {
				if saved != nil && objOf(info, s.rhs) == saved {
					r.Ok(rule, f.Name(), con, w.Pos(s.as.Pos()), "deferred restore of the value saved on entry")
				} else {
					r.Bad(rule, f.Name(), con, w.Pos(s.as.Pos()), "the deferred write must restore the value saved on entry")
				}
				continue
			}
			tv := info.Types[s.rhs]
			switch {
			case tv.Value == nil:
				r.Bad(rule, f.Name(), con, w.Pos(s.as.Pos()), "the in-loop flag is set from a non-constant outside a deferred restore")
			case helperRestoreAt.IsValid() && helperRestoreAt < s.as.Pos() && !(firstBlockParse.IsValid() && s.as.Pos() > firstBlockParse):
				r.Ok(rule, f.Name(), con, w.Pos(s.as.Pos()), "the current value is handed to a deferred restore before the store; set before anything that can parse a block")
			case saved == nil || !hasRestore || savePos > s.as.Pos():
				r.Bad(rule, f.Name(), con, w.Pos(s.as.Pos()),
					"the in-loop flag is overwritten with a constant without saving it first and restoring it by defer: after this construct an enclosing loop body no longer accepts break/continue")
			case firstBlockParse.IsValid() && s.as.Pos() > firstBlockParse:
				r.Bad(rule, f.Name(), con+" after a sub-parse", w.Pos(s.as.Pos()),
					"the flag is set only after a call that can already parse the body (an iterable that is a call with a block carries the loop body): break/continue in that body are rejected")
			default:
				r.Ok(rule, f.Name(), con, w.Pos(s.as.Pos()), "saved before, restored by defer, set before anything that can parse a block")
			}
		}
	}
}
