package main

// forssa.go: the element loops of the for evaluator on the SSA form. The loops
// are found from the bindings of the key and value names (value graph:
// induction variables, MapKeys/MapIndex, Index, Next), their per-iteration
// behaviour from the paths of the evaluator with every loop run for one
// iteration. Loop syntax (three-clause, range, hoisted lengths, where the
// advance sits) does not matter.

import (
	"fmt"
	"go/constant"
	"go/token"
	"go/types"
	"sort"
	"strings"

	"golang.org/x/tools/go/ssa"
)

type forLoop struct {
	kind     string // map | slice | iterator | ?
	header   *ssa.BasicBlock
	keySet   *ssa.Call
	valSet   *ssa.Call
	problems []string
	okOrder  bool
}

// loopHeaderOf: the innermost loop header dominating b from which b is reachable and which b reaches.
func loopHeaderOf(b *ssa.BasicBlock) *ssa.BasicBlock {
	for d := b; d != nil; d = d.Idom() {
		for _, p := range d.Preds {
			// p -> d is a back edge when d dominates p; b belongs to that loop when it can reach p
			if d.Dominates(p) && (p == b || b == d || blockReaches(b, p, false)) {
				return d
			}
		}
	}
	return nil
}

func isInductionFrom(v ssa.Value, start int64) (*ssa.Phi, bool) {
	phi, ok := v.(*ssa.Phi)
	if !ok {
		return nil, false
	}
	init, step := false, false
	for _, e := range phi.Edges {
		if c, ok := e.(*ssa.Const); ok && c.Value != nil && c.Value.Kind() == constant.Int {
			if n, _ := constant.Int64Val(c.Value); n == start {
				init = true
				continue
			}
			return nil, false
		}
		bo, ok := e.(*ssa.BinOp)
		if !ok || bo.Op != token.ADD || bo.X != ssa.Value(phi) {
			return nil, false
		}
		c, ok := bo.Y.(*ssa.Const)
		if !ok || c.Value == nil || constant.Compare(c.Value, token.NEQ, constant.MakeInt64(1)) {
			return nil, false
		}
		step = true
	}
	return phi, init && step
}

// counterFromZero: v is an index that runs 0, 1, 2, ...: phi(0, +1), or the
// rotated range form phi(-1, +1)+1.
func counterFromZero(v ssa.Value) (ssa.Value, bool) {
	if phi, ok := isInductionFrom(v, 0); ok {
		return phi, true
	}
	if bo, ok := v.(*ssa.BinOp); ok && bo.Op == token.ADD {
		if c, ok := bo.Y.(*ssa.Const); ok && c.Value != nil && constant.Compare(c.Value, token.EQL, constant.MakeInt64(1)) {
			if _, ok := isInductionFrom2(bo.X, bo); ok {
				return v, true
			}
		}
	}
	return nil, false
}

// isInductionFrom2: phi(-1, next) where next is the given phi+1 value.
func isInductionFrom2(v ssa.Value, next ssa.Value) (*ssa.Phi, bool) {
	phi, ok := v.(*ssa.Phi)
	if !ok {
		return nil, false
	}
	init, step := false, false
	for _, e := range phi.Edges {
		if c, ok := e.(*ssa.Const); ok && c.Value != nil && c.Value.Kind() == constant.Int {
			if n, _ := constant.Int64Val(c.Value); n == -1 {
				init = true
				continue
			}
			return nil, false
		}
		if e != next {
			return nil, false
		}
		step = true
	}
	return phi, init && step
}

// boundedBy: the loop that contains use is entered only while idx < limit(v) for a limit accepted by isLimit.
func boundedBy(idx ssa.Value, at *ssa.BasicBlock, isLimit func(ssa.Value) bool) bool {
	for _, f := range dominatingFacts(at) {
		bo, ok := f.cond.(*ssa.BinOp)
		if !ok {
			continue
		}
		switch {
		case bo.Op == token.LSS && f.truth && bo.X == idx && isLimit(bo.Y):
			return true
		case bo.Op == token.GTR && f.truth && bo.Y == idx && isLimit(bo.X):
			return true
		case bo.Op == token.GEQ && !f.truth && bo.X == idx && isLimit(bo.Y):
			return true
		case bo.Op == token.LEQ && !f.truth && bo.Y == idx && isLimit(bo.X):
			return true
		case bo.Op == token.NEQ && f.truth && ((bo.X == idx && isLimit(bo.Y)) || (bo.Y == idx && isLimit(bo.X))):
			// a counter that starts at 0 and steps by 1 meets a non-negative length exactly once
			return true
		case bo.Op == token.EQL && !f.truth && ((bo.X == idx && isLimit(bo.Y)) || (bo.Y == idx && isLimit(bo.X))):
			return true
		}
	}
	return false
}

func forLoopsRuleSSA(r *Run) {
	w := r.W
	w.SSA()
	f := w.evalMethod("ForExpression")
	m := w.coreModel()
	if f == nil || m.block == nil {
		r.Lost("R1", "for evaluator / block evaluator")
		return
	}
	fn := w.SSAFunc(f)
	name := f.Name()
	node := ssa.Value(fn.Params[1])
	isNodeField := func(v ssa.Value, field string) bool {
		x, ok := isFieldLoadOf(v, astPath, "ForExpression", field)
		return ok && x == node
	}
	// ---- the loops, from the bindings
	loops := map[*ssa.BasicBlock]*forLoop{}
	var order []*ssa.BasicBlock
	for _, b := range fn.Blocks {
		for _, ins := range b.Instrs {
			c, ok := ins.(*ssa.Call)
			if !ok || !c.Call.IsInvoke() || c.Call.Method.Name() != "Set" || len(c.Call.Args) != 2 {
				continue
			}
			isKey, isVal := isNodeField(c.Call.Args[0], "KeyName"), isNodeField(c.Call.Args[0], "ValueName")
			if !isKey && !isVal {
				continue
			}
			h := loopHeaderOf(b)
			if h == nil {
				continue
			}
			l := loops[h]
			if l == nil {
				l = &forLoop{header: h, kind: "?"}
				loops[h] = l
				order = append(order, h)
			}
			if isKey {
				l.keySet = c
			} else {
				l.valSet = c
			}
		}
	}
	if len(order) != 3 {
		r.Bad("R1", name, fmt.Sprintf("%d element loops", len(order)), w.Pos(fn.Pos()), "expected the three sibling element loops (map, slice/array, iterator)")
	}
	// ---- R2: element order and keys
	for _, h := range order {
		l := loops[h]
		if l.keySet == nil || l.valSet == nil {
			l.problems = append(l.problems, "the loop does not bind both the key and the value name")
			continue
		}
		k := stripIface(l.keySet.Call.Args[1])
		v := stripIface(l.valSet.Call.Args[1])
		at := l.valSet.Block()
		ifaceOf := func(x ssa.Value) (ssa.Value, bool) {
			recv, _, ok := reflectValueCall(x, "Interface")
			return recv, ok
		}
		switch {
		default:
			l.kind = "?"
		case func() bool { rv, ok := ifaceOf(v); _, _, isMI := reflectValueCall(rv, "MapIndex"); return ok && isMI }():
			l.kind = "map"
			rv, _ := ifaceOf(v)
			recv, args, _ := reflectValueCall(rv, "MapIndex")
			kv, okK := ifaceOf(k)
			okOrder := okK && len(args) == 1 && args[0] == kv
			// kv = keys[idx], keys = recv.MapKeys(), idx a counter below len(keys)
			var keys, idx ssa.Value
			if ld, ok := kv.(*ssa.UnOp); ok && ld.Op == token.MUL {
				if ia, ok := ld.X.(*ssa.IndexAddr); ok {
					keys, idx = ia.X, ia.Index
				}
			}
			if keys == nil {
				okOrder = false
			} else {
				mrecv, _, isMK := reflectValueCall(keys, "MapKeys")
				if !isMK || mrecv != recv {
					okOrder = false
				}
				if _, isCounter := counterFromZero(idx); !isCounter {
					okOrder = false
				}
				if !boundedBy(idx, at, func(x ssa.Value) bool {
					c, ok := x.(*ssa.Call)
					if !ok {
						return false
					}
					b, ok := c.Call.Value.(*ssa.Builtin)
					return ok && b.Name() == "len" && c.Call.Args[0] == keys
				}) {
					okOrder = false
				}
			}
			l.okOrder = okOrder
		case func() bool { rv, ok := ifaceOf(v); _, _, isIx := reflectValueCall(rv, "Index"); return ok && isIx }():
			l.kind = "slice"
			rv, _ := ifaceOf(v)
			recv, args, _ := reflectValueCall(rv, "Index")
			okOrder := len(args) == 1 && args[0] == k
			if _, isCounter := counterFromZero(k); !isCounter {
				okOrder = false
			}
			if !boundedBy(k, at, func(x ssa.Value) bool {
				lr, _, ok := reflectValueCall(x, "Len")
				return ok && lr == recv
			}) {
				okOrder = false
			}
			l.okOrder = okOrder
		case func() bool {
			c, ok := v.(*ssa.Call)
			return ok && c.Call.IsInvoke() && c.Call.Method.Name() == "Next" && h.Dominates(c.Block()) && blockReaches(c.Block(), h, false)
		}():
			// the element is fetched at the top of every iteration: for i := 0; ; i++ { v := it.Next(); if v == nil { break } ... }
			l.kind = "iterator"
			call := v.(*ssa.Call)
			_, isCounter := isInductionFrom(k, 0)
			stops := false
			for _, fct := range dominatingFacts(at) {
				if bo, ok := fct.cond.(*ssa.BinOp); ok && (bo.Op == token.NEQ || bo.Op == token.EQL) {
					if (bo.X == ssa.Value(call) && isNilConst(bo.Y)) || (bo.Y == ssa.Value(call) && isNilConst(bo.X)) {
						if fct.truth == (bo.Op == token.NEQ) {
							stops = true
						}
					}
				}
			}
			// exactly one Next per iteration: no other Next call on the same iterator inside the loop
			nNext := 0
			for _, b := range fn.Blocks {
				if !(h.Dominates(b) && blockReaches(b, h, false)) {
					continue
				}
				for _, ins := range b.Instrs {
					if c2, ok := ins.(*ssa.Call); ok && c2.Call.IsInvoke() && c2.Call.Method.Name() == "Next" && c2.Call.Value == call.Call.Value {
						nNext++
					}
				}
			}
			l.okOrder = isCounter && stops && nNext == 1
		case func() bool {
			phi, ok := v.(*ssa.Phi)
			if !ok {
				return false
			}
			for _, e := range phi.Edges {
				c, ok := e.(*ssa.Call)
				if !ok || !c.Call.IsInvoke() || c.Call.Method.Name() != "Next" {
					return false
				}
			}
			return len(phi.Edges) >= 2
		}():
			l.kind = "iterator"
			phi := v.(*ssa.Phi)
			okOrder := true
			var it ssa.Value
			for _, e := range phi.Edges {
				c := e.(*ssa.Call)
				if it != nil && c.Call.Value != it {
					okOrder = false
				}
				it = c.Call.Value
			}
			ctr, isCounter := isInductionFrom(k, 0)
			if !isCounter || ctr.Block() != phi.Block() {
				okOrder = false
			} else {
				// the counter advances on exactly the edges on which Next is called again
				for i, e := range phi.Edges {
					_, ctrInit := ctr.Edges[i].(*ssa.Const)
					nextCall := e.(*ssa.Call)
					inLoop := blockReaches(phi.Block(), nextCall.Block(), false) && phi.Block().Dominates(nextCall.Block())
					if ctrInit == inLoop {
						okOrder = false
					}
				}
			}
			// the loop runs while the element is not nil
			stops := false
			for _, fct := range dominatingFacts(at) {
				if bo, ok := fct.cond.(*ssa.BinOp); ok && (bo.Op == token.NEQ || bo.Op == token.EQL) {
					if (bo.X == ssa.Value(phi) && isNilConst(bo.Y)) || (bo.Y == ssa.Value(phi) && isNilConst(bo.X)) {
						if fct.truth == (bo.Op == token.NEQ) {
							stops = true
						}
					}
				}
			}
			l.okOrder = okOrder && stops
		}
	}
	// ---- R1, C16.R5: per-iteration behaviour, by paths
	paths, complete := walkPathsUnrolled(fn, nil, m.inline, 200000)
	type iterSummary struct {
		n                             int
		bad                           []string
		sawContinue, sawBreak, sawRet bool
		sawPlain, sawNil              bool
		retPropagated                 bool
	}
	sums := map[*ssa.BasicBlock]*iterSummary{}
	for _, h := range order {
		sums[h] = &iterSummary{}
	}
	// a return out of one of the element loops with an error made on the spot (not the error of the block): the loop
	// gives up for a reason of its own - a cap on the number of values an iterator may yield - and does not "render
	// its body once per element ... until exhausted". Decided on the blocks (the test `i >= max` is false for the
	// one iteration the paths walk, so no path takes it).
	for _, cand := range order {
		body := loopBodyOf(cand)
		for _, b := range fn.Blocks {
			if body[b] || len(b.Instrs) == 0 {
				continue
			}
			ret, isRet := b.Instrs[len(b.Instrs)-1].(*ssa.Return)
			if !isRet || len(ret.Results) != 2 {
				continue
			}
			fromBody := false
			for _, pr := range b.Preds {
				if body[pr] {
					fromBody = true
				}
			}
			if !fromBody {
				continue
			}
			errV := ret.Results[1]
			// (with a defer in the function the results are returned through cells: what this block stores there)
			if ld, isLd := errV.(*ssa.UnOp); isLd && ld.Op == token.MUL {
				for _, ins := range b.Instrs {
					if st, isSt := ins.(*ssa.Store); isSt && st.Addr == ld.X {
						errV = st.Val
					}
				}
			}
			if c, isCall := errV.(*ssa.Call); isCall && c.Block() == b && sums[cand] != nil {
				sums[cand].bad = append(sums[cand].bad, "the loop is left with an error of its own ("+calleeLabel(c)+"): the elements that remain are never visited")
			}
		}
	}
	// the accumulator when nothing ran: result of a success path without any block evaluation
	for _, p := range paths {
		if p.end != "return" || len(p.results) != 2 {
			continue
		}
		var blockCall *ssa.Call
		nBlock := 0
		var evIdx int
		for i, ev := range p.events {
			if c, ok := ev.(*ssa.Call); ok && c.Call.StaticCallee() == m.block {
				blockCall, evIdx = c, i
				nBlock++
			}
		}
		if blockCall == nil {
			continue
		}
		// which loop ran? the one whose bindings were executed on this path
		var h *ssa.BasicBlock
		for _, cand := range order {
			cl := loops[cand]
			for _, ev := range p.events {
				if (cl.valSet != nil && ev == ssa.Instruction(cl.valSet)) || (cl.keySet != nil && ev == ssa.Instruction(cl.keySet)) {
					h = cand
				}
			}
		}
		s := sums[h]
		if s == nil || h == nil {
			continue
		}
		l := loops[h]
		addBad := func(why string) {
			for _, b := range s.bad {
				if b == why {
					return
				}
			}
			s.bad = append(s.bad, why)
		}
		if nBlock != 1 {
			addBad(fmt.Sprintf("block evaluated %d times per iteration", nBlock))
			continue
		}
		if x, ok := isFieldLoadOf(p.resolve(blockCall.Call.Args[1]), astPath, "ForExpression", "Block"); !ok || (x != node && p.resolve(x) != node) {
			addBad("evaluates something other than node.Block")
		}
		// bindings before the evaluation, none after
		keyAt, valAt := -1, -1
		for i, ev := range p.events {
			if ev == ssa.Instruction(l.keySet) {
				keyAt = i
			}
			if ev == ssa.Instruction(l.valSet) {
				valAt = i
			}
		}
		if keyAt < 0 || valAt < 0 || keyAt > evIdx || valAt > evIdx {
			addBad("key and value must be bound before the block is evaluated")
		}
		res := ssa.Value(nil)
		errV := ssa.Value(nil)
		for _, ref := range p.referrers(blockCall) {
			if ex, ok := ref.(*ssa.Extract); ok {
				if ex.Index == 0 {
					res = ex
				} else {
					errV = ex
				}
			}
		}
		if p.knownNil(p.results[1]) == false {
			// an error return: must be (nil, err) of the block's error
			if errV == nil || p.resolve(p.results[1]) != errV || !isNilConst(p.resolve(p.results[0])) {
				// errors of other origin (iterable evaluation, scope) are before the loop
				if p.resolve(p.results[1]) == errV {
					addBad("return other than (nil, err) in the loop body")
				}
			}
			continue
		}
		s.n++
		// what did the block yield on this path?
		kind := "plain"
		var typed ssa.Value
		for _, d := range p.decisions {
			ex, ok := d.cond.(*ssa.Extract)
			if !ok || ex.Index != 1 || !d.truth {
				continue
			}
			ta, ok := ex.Tuple.(*ssa.TypeAssert)
			if !ok || p.resolve(ta.X) != res {
				continue
			}
			tn := exitTypeName(ta.AssertedType)
			if strings.HasSuffix(tn, "Object") && declaredIn(ta.AssertedType, modPath) {
				kind = tn
				for _, ref := range p.referrers(ta) {
					if e0, ok := ref.(*ssa.Extract); ok && e0.Index == 0 {
						typed = e0
					}
				}
			}
		}
		final := p.resolve(stripIface(p.resolve(p.results[0])))
		// what was appended?
		var appended ssa.Value
		nApp := 0
		for _, ev := range p.events[evIdx:] {
			_ = ev
		}
		if app, ok := final.(*ssa.Call); ok {
			if b, ok := app.Call.Value.(*ssa.Builtin); ok && b.Name() == "append" {
				if els, ok := p.sliceElems(app.Call.Args[1]); ok && len(els) == 1 {
					appended = p.resolve(stripIface(p.resolve(els[0])))
					nApp = 1
				} else {
					nApp = 2
				}
			}
		}
		isValueOf := func(v ssa.Value) bool {
			if typed == nil || v == nil {
				return false
			}
			switch x := v.(type) {
			case *ssa.Field:
				return p.resolve(x.X) == typed && x.Field == valueFieldIndex(x.X.Type())
			case *ssa.UnOp:
				if fa, ok := x.X.(*ssa.FieldAddr); ok && x.Op == token.MUL {
					if st, ok := p.stores[p.addrKey(fa.X)]; ok && p.resolve(st) == typed {
						pt := fa.X.Type().Underlying().(*types.Pointer)
						return fa.Field == valueFieldIndex(pt.Elem())
					}
				}
			}
			return false
		}
		switch kind {
		case "continueObject", "breakObject":
			if kind == "continueObject" {
				s.sawContinue = true
			} else {
				s.sawBreak = true
			}
			if nApp == 1 && !isValueOf(appended) {
				addBad("a " + kind + " must contribute its Value to the loop's output")
			}
			if nApp == 0 {
				// nothing appended: only when the object's Value was found nil on this path
				valueNil := false
				for _, d := range p.decisions {
					x, op, ok := isNilCompare(p, d.cond)
					if ok && d.truth == (op == token.EQL) && isValueOf(p.resolve(stripIface(p.resolve(x)))) {
						valueNil = true
					}
				}
				if !valueNil {
					addBad("what the iteration produced before a " + kind + " is dropped (its Value must be appended unless it is nil)")
				}
			}
			if nApp > 1 {
				addBad("more than one value appended per iteration")
			}
			if kind == "breakObject" && p.revisited[h] > 0 {
				addBad("after a break object the loop goes on")
			}
			if kind == "continueObject" && p.revisited[h] == 0 {
				addBad("a continue object ends the loop")
			}
		case "returnObject":
			s.sawRet = true
			// must be propagated: the function returns a return object at once
			if mi, ok := p.resolve(p.results[0]).(*ssa.MakeInterface); ok && exitTypeName(mi.X.Type()) == "returnObject" && p.revisited[h] == 0 {
				s.retPropagated = true
			}
		default:
			if nApp == 1 {
				if appended != res {
					addBad("an ordinary result must be appended as it is")
				}
				s.sawPlain = true
			} else if nApp == 0 {
				// nothing appended: the result must have been nil
				if !p.knownNil(res) {
					addBad("a non-nil result is dropped")
				}
				s.sawNil = true
			} else {
				addBad("more than one value appended per iteration")
			}
			if p.revisited[h] == 0 {
				addBad("an ordinary result ends the loop")
			}
		}
	}
	if !complete {
		r.Lost("R1", "paths of the for evaluator (too many)")
		return
	}
	sort.Slice(order, func(i, j int) bool { return loops[order[i]].kind < loops[order[j]].kind })
	for _, h := range order {
		l, s := loops[h], sums[h]
		pos := w.Pos(firstPos(h))
		if l.valSet != nil {
			pos = w.Pos(l.valSet.Pos())
		}
		con := l.kind + " loop body"
		if !s.sawContinue {
			s.bad = append(s.bad, "continue objects are not unwrapped")
		}
		if !s.sawBreak {
			s.bad = append(s.bad, "break objects are not unwrapped")
		}
		if !s.sawPlain || !s.sawNil {
			s.bad = append(s.bad, "non-nil results must be appended, nil results skipped")
		}
		bad := append(append([]string{}, l.problems...), s.bad...)
		if len(bad) > 0 {
			r.Bad("R1", name, con, pos, "the loop body deviates from its siblings: "+strings.Join(bad, "; "))
		} else {
			r.Ok("R1", name, con, pos, fmt.Sprintf("bind key, bind value, evaluate the block once, return on error, unwrap continue, unwrap break and leave, append non-nil results (%d path(s))", s.n))
		}
		con2 := l.kind + " loop induction"
		switch {
		case l.okOrder && l.kind == "slice":
			r.Ok("R2", name, con2, pos, "i from 0 by 1 below Len(); key i; value Index(i)")
		case l.okOrder && l.kind == "map":
			r.Ok("R2", name, con2, pos, "each key of MapKeys() once; value is MapIndex of that key")
		case l.okOrder && l.kind == "iterator":
			r.Ok("R2", name, con2, pos, "counter from 0, +1 and Next() together, loop ends at the first nil")
		case l.kind == "slice":
			r.Bad("R2", name, con2, pos, "the slice loop must bind the running index (from 0 by +1 below Len()) as key and the element at that same index as value")
		case l.kind == "map":
			r.Bad("R2", name, con2, pos, "the map loop must visit every key of MapKeys() once and bind that key together with MapIndex of that same key")
		case l.kind == "iterator":
			r.Bad("R2", name, con2, pos, "the iterator loop must bind a counter that starts at 0 and is incremented exactly once per element, fetch the next element at the end of every iteration, and stop at the first nil")
		default:
			r.Bad("R2", name, con2, pos, "the loop's element source is not recognised (map, slice/array or Iterator)")
		}
	}
}

// loopReturnRuleSSA (C16.R5): a return object that comes out of the loop body
// is propagated, not appended to the loop's output.
func loopReturnRuleSSA(r *Run, rule string) {
	w := r.W
	w.SSA()
	f := w.evalMethod("ForExpression")
	m := w.coreModel()
	if f == nil || m.block == nil {
		r.Lost(rule, "for evaluator")
		return
	}
	fn := w.SSAFunc(f)
	// the loops and their kinds, from the value bindings (as in C08)
	kindOf := map[*ssa.BasicBlock]string{}
	for _, b := range fn.Blocks {
		for _, ins := range b.Instrs {
			c, ok := ins.(*ssa.Call)
			if !ok || !c.Call.IsInvoke() || c.Call.Method.Name() != "Set" || len(c.Call.Args) != 2 {
				continue
			}
			if _, isVal := isFieldLoadOf(c.Call.Args[0], astPath, "ForExpression", "ValueName"); !isVal {
				continue
			}
			h := loopHeaderOf(b)
			if h == nil {
				continue
			}
			v := stripIface(c.Call.Args[1])
			kind := "loop"
			if rv, _, ok := reflectValueCall(v, "Interface"); ok {
				if _, _, isMI := reflectValueCall(rv, "MapIndex"); isMI {
					kind = "map loop"
				} else if _, _, isIx := reflectValueCall(rv, "Index"); isIx {
					kind = "slice loop"
				}
			} else if fromIteratorNext(v) {
				kind = "iterator loop"
			}
			kindOf[h] = kind
		}
	}
	// type tests of the block's result inside each loop -- in the evaluator itself or in a helper that
	// the loop body calls (the helper is then attributed to every loop that calls it)
	hasReturn := map[*ssa.BasicBlock]bool{}
	at := map[*ssa.BasicBlock]token.Pos{}
	var scan func(g *ssa.Function, loopsOf func(b *ssa.BasicBlock) []*ssa.BasicBlock, depth int)
	scan = func(g *ssa.Function, loopsOf func(b *ssa.BasicBlock) []*ssa.BasicBlock, depth int) {
		if depth > 2 {
			return
		}
		for _, b := range g.Blocks {
			for _, ins := range b.Instrs {
				switch x := ins.(type) {
				case *ssa.TypeAssert:
					ex, ok := x.X.(*ssa.Extract)
					if !ok {
						continue
					}
					c, ok := ex.Tuple.(*ssa.Call)
					if !ok || c.Call.StaticCallee() != m.block {
						continue
					}
					for _, h := range loopsOf(b) {
						if !at[h].IsValid() {
							at[h] = x.Pos()
						}
						if exitTypeName(x.AssertedType) == "returnObject" {
							hasReturn[h] = true
						}
					}
				case *ssa.Call:
					cal := x.Call.StaticCallee()
					if cal != nil && cal != g && len(cal.Blocks) > 0 && m.inline(g, cal) {
						hs := loopsOf(b)
						scan(cal, func(*ssa.BasicBlock) []*ssa.BasicBlock { return hs }, depth+1)
					}
				}
			}
		}
	}
	scan(fn, func(b *ssa.BasicBlock) []*ssa.BasicBlock {
		if h := loopHeaderOf(b); h != nil {
			return []*ssa.BasicBlock{h}
		}
		return nil
	}, 0)
	var hs []*ssa.BasicBlock
	for h := range kindOf {
		hs = append(hs, h)
	}
	sort.Slice(hs, func(i, j int) bool { return kindOf[hs[i]] < kindOf[hs[j]] })
	if len(hs) == 0 {
		r.Lost(rule, "element loops of the for evaluator")
		return
	}
	for _, h := range hs {
		pos := at[h]
		if !pos.IsValid() {
			pos = firstPos(h)
		}
		if hasReturn[h] {
			r.Ok(rule, f.Name(), kindOf[h]+": return object propagated", w.Pos(pos), "the block's result is tested for the return wrapper")
		} else {
			r.Bad(rule, f.Name(), kindOf[h]+": return object treated as output", w.Pos(pos),
				"a return reached inside the loop body is appended to the loop's output like ordinary text and the loop goes on; 'fn(){ for ... { return x } return 9 }' yields 9")
		}
	}
}

// fromIteratorNext: the value is the result of an invoked Next() -- directly
// (the call sits at the top of the loop) or through the loop's phi (pre-fetch
// before the loop and again at the end of the body).
func fromIteratorNext(v ssa.Value) bool {
	isNext := func(x ssa.Value) bool {
		c, ok := stripIface(x).(*ssa.Call)
		return ok && c.Call.IsInvoke() && c.Call.Method.Name() == "Next" && len(c.Call.Args) == 0
	}
	if isNext(v) {
		return true
	}
	if phi, ok := v.(*ssa.Phi); ok {
		for _, e := range phi.Edges {
			if isNext(e) {
				return true
			}
		}
	}
	return false
}

// forIterableRuleSSA (C08.R3): a nil iterable yields (nil, nil); a value that
// is neither map, slice, array nor Iterator ends in a non-nil error. Decided
// by evaluating the branch decisions of the evaluator's paths for the two
// value classes "nil" and "some other kind" (an int).
func forIterableRuleSSA(r *Run) {
	w := r.W
	w.SSA()
	f := w.evalMethod("ForExpression")
	m := w.coreModel()
	if f == nil || m.expr == nil {
		r.Lost("R3", "for evaluator")
		return
	}
	fn := w.SSAFunc(f)
	name := f.Name()
	paths, ok := walkPathsUnrolled(fn, nil, m.inline, 200000)
	if !ok {
		r.Lost("R3", "paths of the for evaluator")
		return
	}
	type class struct {
		name  string
		kind  int
		isNil bool
	}
	for _, c := range []class{{"nil", kInvalid, true}, {"a value that cannot be iterated (an int)", kInt, false}} {
		n, bad := 0, ""
		var at token.Pos = fn.Pos()
		for _, p := range paths {
			if p.end != "return" || len(p.results) != 2 {
				continue
			}
			// the iterable's value on this path
			var iter ssa.Value
			for _, ev := range p.events {
				if call, ok := ev.(*ssa.Call); ok && call.Call.StaticCallee() == m.expr {
					if x, isF := isFieldLoadOf(p.resolve(call.Call.Args[1]), astPath, "ForExpression", "Iterable"); isF && p.resolve(x) == ssa.Value(fn.Params[1]) {
						for _, ref := range p.referrers(call) {
							if ex, ok := ref.(*ssa.Extract); ok && ex.Index == 0 {
								iter = ex
							}
						}
					}
				}
			}
			if iter == nil {
				continue
			}
			kindOf := func(v ssa.Value) int {
				// reflect.ValueOf(iter), possibly dereferenced
				v = p.resolve(v)
				for i := 0; i < 3; i++ {
					if args, ok := reflectFunc(v, "ValueOf"); ok && len(args) == 1 && p.resolve(stripIface(p.resolve(args[0]))) == iter {
						return c.kind
					}
					if args, ok := reflectFunc(v, "Indirect"); ok && len(args) == 1 {
						v = p.resolve(args[0])
						continue
					}
					if recv, _, ok := reflectValueCall(v, "Elem"); ok {
						v = p.resolve(recv)
						continue
					}
					break
				}
				return -1
			}
			consistent := true
			for _, d := range p.decisions {
				switch x := d.cond.(type) {
				case *ssa.BinOp:
					if x.Op != token.EQL && x.Op != token.NEQ {
						continue
					}
					a, b := p.resolve(x.X), p.resolve(x.Y)
					if isNilConst(a) {
						a, b = b, a
					}
					if isNilConst(b) {
						if p.resolve(stripIface(a)) == iter || a == iter {
							if (c.isNil == (x.Op == token.EQL)) != d.truth {
								consistent = false
							}
						}
						// errors are assumed absent
						if ex, ok := a.(*ssa.Extract); ok && ex.Index == 1 {
							if _, isCall := ex.Tuple.(*ssa.Call); isCall && isErrorType(ex.Type()) {
								if d.truth != (x.Op == token.EQL) {
									consistent = false
								}
							}
						}
						continue
					}
					if recv, _, isKind := reflectValueCall(a, "Kind"); isKind {
						if k, isC := constKind(b); isC {
							if kk := kindOf(recv); kk >= 0 && ((kk == k) == (x.Op == token.EQL)) != d.truth {
								consistent = false
							}
						}
					}
				case *ssa.Extract:
					if ta, ok := x.Tuple.(*ssa.TypeAssert); ok && x.Index == 1 {
						src := p.resolve(ta.X)
						if src == iter {
							// no class here implements anything; the int IS an int (and satisfies the empty interface)
							want := false
							if !c.isNil {
								if it, isIface := ta.AssertedType.Underlying().(*types.Interface); isIface {
									want = it.NumMethods() == 0
								} else {
									want = c.kind == kInt && types.Identical(ta.AssertedType, types.Typ[types.Int])
								}
							}
							if d.truth != want {
								consistent = false
							}
						} else if !d.truth {
							// the evaluator's own scope assertion is assumed to succeed
							if _, isPtr := ta.AssertedType.(*types.Pointer); isPtr && namedIs(ta.AssertedType, modPath, "Context") {
								consistent = false
							}
						}
					}
				}
			}
			if !consistent {
				continue
			}
			n++
			at = p.ret.Pos()
			ranBody := false
			for _, ev := range p.events {
				if call, ok := ev.(*ssa.Call); ok && call.Call.StaticCallee() == m.block {
					ranBody = true
				}
			}
			if c.isNil {
				if ranBody || !p.knownNil(p.results[1]) {
					bad = "a nil iterable must yield (nil, nil)"
				} else if v := p.resolve(p.results[0]); !isNilConst(v) {
					// an empty result list is as good as nil for the sink, but the documented contract is nil
					if _, isSlice := stripIface(v).(*ssa.Slice); !isSlice {
						bad = "a nil iterable must yield (nil, nil)"
					}
				}
			} else if ranBody || p.knownNil(p.results[1]) {
				bad = "a value that is neither map, slice, array nor Iterator must be an error"
			}
		}
		switch {
		case n == 0:
			r.Bad("R3", name, "no path for "+c.name, w.Pos(at), "the evaluator's handling of this kind of iterable cannot be read")
		case bad != "" && c.isNil:
			r.Bad("R3", name, "nil iterable", w.Pos(at), bad)
		case bad != "":
			r.Bad("R3", name, "non-iterable value", w.Pos(at), bad)
		case c.isNil:
			r.Ok("R3", name, "nil iterable renders nothing", w.Pos(at), fmt.Sprintf("%d consistent path(s): (nil, nil) without running the body", n))
		default:
			r.Ok("R3", name, "non-iterable is an error", w.Pos(at), fmt.Sprintf("%d consistent path(s): all end in a non-nil error", n))
		}
	}
}
