package main

// c06pratt.go: the precedence lookups, the Pratt loop and the infix parser's
// recursion (parts of C06.R1 and C06.R3) on paths. A precedence level is a value
// read from the constant precedence table with the type of the current or the
// peek token as key (through whatever helper: a method per token field, one
// function taking the token type, a lookup written in line), or the constant a
// lookup falls back to when the key is absent.

import (
	"fmt"
	"go/constant"
	"go/token"
	"go/types"
	"sort"

	"golang.org/x/tools/go/ssa"
)

type prattModel struct {
	w               *World
	pkg             *ssa.Package
	tableG          *ssa.Global
	pratt, next     *ssa.Function
	expect          *ssa.Function
	curIdx, peekIdx int
	why             string
}

func (w *World) prattSSA() *prattModel {
	m := &prattModel{w: w, curIdx: -1, peekIdx: -1}
	pm := w.parserModel()
	if len(pm.problems) > 0 || pm.advance == nil || pm.pratt == nil {
		m.why = "parser model"
		return m
	}
	w.SSA()
	m.pkg = w.SSAPkg("parser")
	tv, _ := w.precedenceTable()
	if m.pkg == nil || tv == nil {
		m.why = "precedence table"
		return m
	}
	m.tableG, _ = m.pkg.Members[tv.Name()].(*ssa.Global)
	m.pratt, m.next = w.SSAFunc(pm.pratt), w.SSAFunc(pm.advance)
	if pm.expectPeek != nil {
		m.expect = w.SSAFunc(pm.expectPeek)
	}
	st, ok := pm.typ.Underlying().(*types.Struct)
	if !ok || m.tableG == nil || m.pratt == nil || m.next == nil {
		m.why = "precedence table / Pratt entry / token cursor"
		return m
	}
	m.curIdx, m.peekIdx = fieldIndex(st, pm.cur), fieldIndex(st, pm.peek)
	return m
}

func (m *prattModel) inline(caller, callee *ssa.Function) bool {
	return pkgOf(callee) == m.pkg && !funcHasLoop(callee) && callee != m.next && callee != m.pratt && callee != m.expect
}

// tokenOf: v is the Type of the parser's current or peek token ("cur" / "peek"); load is the load instruction.
func (m *prattModel) tokenOf(p *pwPath, v ssa.Value) (which string, load *ssa.UnOp) {
	v = p.resolve(v)
	for i := 0; i < 3; i++ {
		switch x := v.(type) {
		case *ssa.ChangeType:
			v = p.resolve(x.X)
			continue
		case *ssa.Convert:
			v = p.resolve(x.X)
			continue
		}
		break
	}
	switch x := v.(type) {
	case *ssa.UnOp:
		if x.Op != token.MUL {
			return "", nil
		}
		fa, ok := x.X.(*ssa.FieldAddr)
		if !ok {
			return "", nil
		}
		inner, ok := p.resolve(fa.X).(*ssa.FieldAddr)
		if !ok {
			return "", nil
		}
		switch inner.Field {
		case m.curIdx:
			return "cur", x
		case m.peekIdx:
			return "peek", x
		}
	case *ssa.Field:
		// a field of a token loaded as a whole
		if ld, ok := p.resolve(x.X).(*ssa.UnOp); ok && ld.Op == token.MUL {
			if fa, ok := ld.X.(*ssa.FieldAddr); ok {
				switch fa.Field {
				case m.curIdx:
					return "cur", ld
				case m.peekIdx:
					return "peek", ld
				}
			}
		}
	}
	return "", nil
}

// tableLookupOf: v is (the value part of) a lookup of the precedence table; returns the lookup.
func (m *prattModel) tableLookupOf(p *pwPath, v ssa.Value) *ssa.Lookup {
	v = p.resolve(v)
	if ex, ok := v.(*ssa.Extract); ok {
		if ex.Index != 0 {
			return nil
		}
		v = ex.Tuple
	}
	lk, ok := v.(*ssa.Lookup)
	if !ok {
		return nil
	}
	ld, ok := p.resolve(lk.X).(*ssa.UnOp)
	if !ok || ld.Op != token.MUL || ld.X != ssa.Value(m.tableG) {
		return nil
	}
	return lk
}

type prattLevel struct {
	which    string // cur | peek
	fallback bool   // the constant used when the token has no level
	load     *ssa.UnOp
	c        int64
}

// levelOf: v is the precedence level of the current or peek token on this path: the table value, or
// the constant a lookup with that key fell back to (the path decided that the key is absent).
func (m *prattModel) levelOf(p *pwPath, v ssa.Value) (prattLevel, bool) {
	if lk := m.tableLookupOf(p, v); lk != nil {
		if which, ld := m.tokenOf(p, lk.Index); which != "" {
			return prattLevel{which: which, load: ld}, true
		}
		return prattLevel{}, false
	}
	c, ok := p.constOf(v)
	if !ok || c.Kind() != constant.Int {
		return prattLevel{}, false
	}
	n, _ := constant.Int64Val(c)
	// the most recent lookup whose key was found absent
	for i := len(p.decisions) - 1; i >= 0; i-- {
		d := p.decisions[i]
		ex, ok := d.cond.(*ssa.Extract)
		if !ok || ex.Index != 1 || d.truth {
			continue
		}
		lk, ok := ex.Tuple.(*ssa.Lookup)
		if !ok || m.tableLookupOf(p, lk) == nil {
			continue
		}
		if which, ld := m.tokenOf(p, lk.Index); which != "" {
			return prattLevel{which: which, fallback: true, load: ld, c: n}, true
		}
	}
	// ... or a plain lookup (zero for an absent key) clamped from below: max(table[t], LOWEST)
	for i := len(p.decisions) - 1; i >= 0; i-- {
		if lk, _, ok := m.clampDecision(p, p.decisions[i]); ok {
			if which, ld := m.tokenOf(p, lk.Index); which != "" {
				return prattLevel{which: which, fallback: true, load: ld, c: n}, true
			}
		}
	}
	return prattLevel{}, false
}

// clampDecision: d found a plain lookup of the precedence table (zero for an absent key) at or below a constant k
// that is below every level of the table and not below zero: the key is absent. Returns the lookup and k.
func (m *prattModel) clampDecision(p *pwPath, d pwDecision) (*ssa.Lookup, int64, bool) {
	bo, ok := d.cond.(*ssa.BinOp)
	if !ok {
		return nil, 0, false
	}
	set := orderingsOf(bo.Op, d.truth)
	if set == 7 {
		return nil, 0, false
	}
	x, y := p.resolve(bo.X), p.resolve(bo.Y)
	lk := m.tableLookupOf(p, x)
	if lk == nil || lk.CommaOk {
		if lk = m.tableLookupOf(p, y); lk == nil || lk.CommaOk {
			return nil, 0, false
		}
		x, y = y, x
		set = flipOrderings(set)
	}
	c, ok := p.constOf(y)
	if !ok || c.Kind() != constant.Int {
		return nil, 0, false
	}
	k, _ := constant.Int64Val(c)
	switch set {
	case 1 | 2: // lookup <= k
	case 1: // lookup < k
		k--
	default:
		return nil, 0, false
	}
	if k < 0 {
		return nil, 0, false
	}
	t := constTablesOf(m.pkg)[m.tableG]
	if t == nil || len(t.vals) == 0 {
		return nil, 0, false
	}
	for _, v := range t.vals {
		cv, isC := v.(*ssa.Const)
		if !isC || cv.Value == nil || cv.Value.Kind() != constant.Int {
			return nil, 0, false
		}
		if n, _ := constant.Int64Val(cv.Value); n <= k {
			return nil, 0, false // the clamp would also change the level of a token that has one
		}
	}
	return lk, k, true
}

// fallbacks: the constants the lookups of the precedence table fall back to, over all functions of the package.
func (m *prattModel) fallbacks() (vals []int64, at map[int64]token.Pos, nLookups int) {
	at = map[int64]token.Pos{}
	seen := map[int64]bool{}
	add := func(n int64, pos token.Pos) {
		if !seen[n] {
			seen[n] = true
			vals = append(vals, n)
			at[n] = pos
		}
	}
	for _, fn := range functionsOf(m.pkg) {
		has := false
		var plain []*ssa.Lookup
		for _, b := range fn.Blocks {
			for _, ins := range b.Instrs {
				if lk, ok := ins.(*ssa.Lookup); ok {
					if ld, ok := lk.X.(*ssa.UnOp); ok && ld.Op == token.MUL && ld.X == ssa.Value(m.tableG) {
						has = true
						nLookups++
						if !lk.CommaOk {
							plain = append(plain, lk)
						}
					}
				}
			}
		}
		if !has {
			continue
		}
		var paths []*pwPath
		ok := false
		if !funcHasLoop(fn) {
			pw := &pathWalker{splitMinMax: true}
			pw.walk(fn)
			paths, ok = pw.paths, !pw.overflow
		}
		if !ok {
			for _, lk := range plain {
				add(0, lk.Pos()) // a plain lookup yields the zero value for an absent key
			}
			continue
		}
		for _, lk := range plain {
			// a plain lookup yields the zero value for an absent key, unless every path that uses it clamps it from below
			raw := false
			for _, p := range paths {
				clamped := false
				for _, d := range p.decisions {
					if l2, _, isClamp := m.clampDecision(p, d); isClamp && origValue(l2) == ssa.Value(lk) {
						clamped = true
						if p.end == "return" && len(p.results) == 1 {
							if c, ok := p.constOf(p.results[0]); ok && c.Kind() == constant.Int {
								n, _ := constant.Int64Val(c)
								add(n, p.ret.Pos())
								continue
							}
						}
						raw = true
					}
				}
				if !clamped {
					// (the other case of the clamp: the looked-up value is above the constant, the key is present)
					above := false
					for _, d := range p.decisions {
						if bo, isBin := d.cond.(*ssa.BinOp); isBin && d.at == syntheticIf {
							if l2 := m.tableLookupOf(p, p.resolve(bo.X)); l2 != nil && origValue(l2) == ssa.Value(lk) {
								above = true
							}
						}
					}
					if !above {
						raw = true
					}
				}
			}
			if raw {
				add(0, lk.Pos())
			}
		}
		for _, p := range paths {
			if p.end != "return" || len(p.results) != 1 {
				continue
			}
			for _, d := range p.decisions {
				ex, ok := d.cond.(*ssa.Extract)
				if !ok || ex.Index != 1 || d.truth {
					continue
				}
				if lk, ok := ex.Tuple.(*ssa.Lookup); ok && m.tableLookupOf(p, lk) != nil {
					if c, ok := p.constOf(p.results[0]); ok && c.Kind() == constant.Int {
						n, _ := constant.Int64Val(c)
						add(n, p.ret.Pos())
					}
				}
			}
		}
	}
	sort.Slice(vals, func(i, j int) bool { return vals[i] < vals[j] })
	return
}

// orderings consistent with `a op b` having the given truth: subset of {<, =, >} as bits 1, 2, 4.
func orderingsOf(op token.Token, truth bool) int {
	set := 0
	switch op {
	case token.LSS:
		set = 1
	case token.LEQ:
		set = 1 | 2
	case token.GTR:
		set = 4
	case token.GEQ:
		set = 4 | 2
	case token.EQL:
		set = 2
	case token.NEQ:
		set = 1 | 4
	default:
		return 7
	}
	if !truth {
		set = 7 &^ set
	}
	return set
}

func flipOrderings(s int) int {
	out := s & 2
	if s&1 != 0 {
		out |= 4
	}
	if s&4 != 0 {
		out |= 1
	}
	return out
}

func c06PrattSSA(r *Run) {
	w := r.W
	rule := "R3"
	m := w.prattSSA()
	if m.why != "" {
		r.Lost(rule, m.why)
		return
	}
	name := ssaName(m.pratt)
	if len(m.pratt.Params) != 2 {
		r.Lost(rule, "precedence parameter of the Pratt entry")
		return
	}
	param := ssa.Value(m.pratt.Params[1])
	paths, ok := walkPathsClamped(m.pratt, m.inline, 20000)
	if !ok || len(paths) == 0 {
		r.Lost(rule, "paths of the Pratt entry")
		return
	}
	nProceed, bad := 0, ""
	var badPos token.Pos
	for _, p := range paths {
		// the call of an infix parse function: a dynamic call with the left operand as its only argument
		callIdx := -1
		for i, ev := range p.events {
			c, ok := ev.(*ssa.Call)
			if !ok || c.Call.IsInvoke() || c.Call.StaticCallee() != nil || len(c.Call.Args) != 1 {
				continue
			}
			if _, isB := c.Call.Value.(*ssa.Builtin); isB {
				continue
			}
			callIdx = i
			break
		}
		if callIdx < 0 {
			continue
		}
		nProceed++
		strict := false
		for _, d := range p.decisions[:p.evDecided[callIdx]] {
			bo, ok := d.cond.(*ssa.BinOp)
			if !ok {
				continue
			}
			x, y := p.resolve(bo.X), p.resolve(bo.Y)
			set := orderingsOf(bo.Op, d.truth)
			if y == param {
				x, y = y, x
				set = flipOrderings(set)
			}
			if x != param {
				continue
			}
			lv, ok := m.levelOf(p, y)
			if !ok {
				continue
			}
			if lv.which != "peek" {
				bad, badPos = "the Pratt loop compares its precedence parameter with the level of the current token, not of the upcoming one", d.at.Pos()
				if d.at == syntheticIf {
					badPos = bo.Pos()
				}
				continue
			}
			if set == 1 {
				strict = true
			} else if bad == "" {
				bad, badPos = "the Pratt loop must continue only while precedence < level of the peek token (strict); a comparison that also continues on an equal level changes associativity", bo.Pos()
			}
		}
		if !strict && bad == "" {
			bad, badPos = "an infix parse function is called on a path that does not compare the precedence parameter with the level of the peek token", origInstr(p.events[callIdx]).Pos()
		}
	}
	switch {
	case nProceed == 0:
		r.Lost(rule, "a path of the Pratt entry that calls an infix parse function")
		return
	case bad != "":
		r.Bad(rule, name, "Pratt loop", w.Pos(badPos), bad)
	default:
		r.Ok(rule, name, "Pratt loop: precedence < level(peek token)", w.Pos(m.pratt.Pos()), fmt.Sprintf("strict on all %d path(s) that call an infix parse function: an equal level ends the right operand (left associative)", nProceed))
	}
	// the infix parser's recursion
	infixInfo := w.registeredFn("+", true)
	if infixInfo == nil {
		r.Lost(rule, "infix parse function registered for '+'")
		return
	}
	for _, g := range c06Groups {
		for _, op := range g {
			if f := w.registeredFn(op, true); f == nil || f.Obj != infixInfo.Obj {
				r.Bad(rule, "parser.newParser", "infix function for "+op, w.Pos(infixInfo.Decl.Pos()), "binary operators are not all parsed by the same infix function")
			}
		}
	}
	infix := w.SSAFunc(infixInfo)
	if infix == nil {
		r.Lost(rule, "SSA form of the infix parse function")
		return
	}
	ipaths, ok := walkPathsClamped(infix, m.inline, 20000)
	if !ok || len(ipaths) == 0 {
		r.Lost(rule, "paths of the infix parse function")
		return
	}
	nRec, ibad := 0, ""
	var ipos token.Pos = infix.Pos()
	for _, p := range ipaths {
		for i, ev := range p.events {
			c, ok := ev.(*ssa.Call)
			if !ok || c.Call.StaticCallee() != m.pratt || len(c.Call.Args) != 2 {
				continue
			}
			nRec++
			ipos = origInstr(c).Pos()
			lv, ok := m.levelOf(p, c.Call.Args[1])
			adv := -1
			for j, e2 := range p.events[:i] {
				if c2, ok := e2.(*ssa.Call); ok && c2.Call.StaticCallee() == m.next && adv < 0 {
					adv = j
				}
			}
			switch {
			case !ok || lv.which != "cur":
				ibad = "the infix parser must parse its right operand at exactly the current operator's level (the level of the current token)"
			case adv < 0:
				ibad = "the token cursor does not advance before the right operand is parsed"
			case lv.load == nil || p.loadAt[lv.load] > adv:
				ibad = "the operator's level is read after the token cursor advanced: it is the level of the first token of the right operand, not of the operator"
			}
		}
	}
	switch {
	case nRec == 0:
		r.Lost(rule, "recursive call of the Pratt entry in the infix parser")
	case ibad != "":
		r.Bad(rule, ssaName(infix), "recursion into the Pratt entry", w.Pos(ipos), ibad)
	default:
		r.Ok(rule, ssaName(infix), "recursion into the Pratt entry", w.Pos(ipos), fmt.Sprintf("right operand parsed at the operator's own level, read before advancing (%d call(s) on paths)", nRec))
	}
}

// walkPathsClamped: unrolled paths with min / max of two integers explored as two cases.
func walkPathsClamped(fn *ssa.Function, inline func(caller, callee *ssa.Function) bool, max int) ([]*pwPath, bool) {
	pw := &pathWalker{inline: inline, unroll1: true, maxPaths: max, splitMinMax: true}
	pw.walk(fn)
	return pw.paths, !pw.overflow
}
