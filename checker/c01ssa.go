package main

// c01ssa.go: the typed dispatch of the output sink (C01.R2), decided by abstract
// evaluation over value classes. The paths of the sink are enumerated with its
// private helpers inlined (pathwalk.go); for every class of dynamic type the
// property speaks about (string, bool, template.HTML, HTMLer, fmt.Stringer,
// numbers, time, containers, wrappers, nil) and for every further type the code
// itself asserts the value to, the type tests on each path are evaluated with
// go/types (identity for concrete types, method sets for interfaces) and what
// the paths taken by the class write is classified: the escaper applied to the
// value, the value verbatim, its HTML(), a formatted rendering, a re-dispatch
// into the sink, or something else. How the sink is laid out (one type switch,
// two layers, helpers that return the text, early returns) does not matter.

import (
	"fmt"
	"go/token"
	"go/types"
	"sort"
	"strings"

	"golang.org/x/tools/go/ssa"
)

type sinkClass struct {
	name   string
	typ    types.Type // dynamic type; nil for the untyped nil
	nilPtr bool       // a typed nil pointer
	want   string     // escape | verbatim | htmler | sprint | stringer | timefmt | ptr | iface | elems | none | safe | safenum
	must   bool       // the property (or the frozen table) names the class; otherwise it was discovered in the code
}

type sinkEval struct {
	w      *World
	fn     *ssa.Function
	val    ssa.Value // the dispatched value
	bb     ssa.Value // the builder parameter (nil when the receiver holds the builder)
	recv   ssa.Value
	family map[types.Object]bool
}

// view: v is the dispatched value seen through assertions and interface conversions.
func (se *sinkEval) view(p *pwPath, v ssa.Value) bool {
	for i := 0; i < 8; i++ {
		v = p.resolve(v)
		if v == se.val {
			return true
		}
		switch x := v.(type) {
		case *ssa.MakeInterface:
			v = x.X
		case *ssa.ChangeInterface:
			v = x.X
		case *ssa.Extract:
			ta, ok := x.Tuple.(*ssa.TypeAssert)
			if !ok || x.Index != 0 {
				return false
			}
			v = ta.X
		case *ssa.TypeAssert:
			if x.CommaOk {
				return false
			}
			v = x.X
		default:
			return false
		}
	}
	return false
}

// cellOfView: addr is a local cell into which the value (a typed view of it) was stored as a whole.
func (se *sinkEval) cellOfView(p *pwPath, addr ssa.Value) bool {
	a, ok := p.resolve(addr).(*ssa.Alloc)
	if !ok {
		return false
	}
	v, ok := p.stores[objKey(a)]
	return ok && se.view(p, v)
}

// origin: how v derives from the dispatched value: "val" (the value itself), "deref" (*value),
// "elem" (an element of the value or of a slice field of it), "iface" (value.Interface()), "" otherwise.
func (se *sinkEval) origin(p *pwPath, v ssa.Value) string {
	v = p.resolve(v)
	if se.view(p, v) {
		return "val"
	}
	v = p.resolve(stripIface(v))
	if se.view(p, v) {
		return "val"
	}
	switch x := v.(type) {
	case *ssa.UnOp:
		if x.Op != token.MUL {
			return ""
		}
		if ia, ok := p.resolve(x.X).(*ssa.IndexAddr); ok {
			base := p.resolve(ia.X)
			if se.view(p, base) {
				return "elem"
			}
			if f, ok := base.(*ssa.Field); ok && se.view(p, f.X) {
				return "elem"
			}
			if ld, ok := base.(*ssa.UnOp); ok && ld.Op == token.MUL {
				if fa, ok := p.resolve(ld.X).(*ssa.FieldAddr); ok && (se.view(p, fa.X) || se.cellOfView(p, fa.X)) {
					return "elem"
				}
			}
			return ""
		}
		if se.view(p, x.X) {
			return "deref"
		}
		// a load of a local copy of the value
		if se.cellOfView(p, x.X) {
			return "val"
		}
	case *ssa.Call:
		if x.Call.IsInvoke() && x.Call.Method.Name() == "Interface" && len(x.Call.Args) == 0 && se.view(p, x.Call.Value) {
			return "iface"
		}
		if cal := x.Call.StaticCallee(); cal != nil && cal.Name() == "Interface" && cal.Signature.Recv() != nil && len(x.Call.Args) == 1 && se.view(p, x.Call.Args[0]) {
			return "iface"
		}
	case *ssa.Index:
		if se.view(p, x.X) {
			return "elem"
		}
	case *ssa.Field:
		if se.view(p, x.X) && isSinkContainer(x.Type()) {
			return "field"
		}
	}
	// a container field of a local copy of the value
	if ld, ok := v.(*ssa.UnOp); ok && ld.Op == token.MUL && isSinkContainer(ld.Type()) {
		if fa, ok := p.resolve(ld.X).(*ssa.FieldAddr); ok && (se.view(p, fa.X) || se.cellOfView(p, fa.X)) {
			return "field"
		}
	}
	return ""
}

// isSinkContainer: []interface{} or []string (the containers the sink writes element by element).
func isSinkContainer(t types.Type) bool {
	sl, ok := t.Underlying().(*types.Slice)
	if !ok {
		return false
	}
	if it, ok := sl.Elem().Underlying().(*types.Interface); ok && it.NumMethods() == 0 {
		return true
	}
	return isBasicKind(sl.Elem(), types.String)
}

func isStaticFunc(c *ssa.CallCommon, pkg, name string) bool {
	cal := c.StaticCallee()
	if cal == nil || cal.Signature.Recv() != nil {
		return false
	}
	o := fnObject(cal)
	return o != nil && o.Pkg() != nil && o.Pkg().Path() == pkg && o.Name() == name
}

// bytesOfString: v is []byte(s) or f(s) for a module function func(string) []byte; returns s.
func (se *sinkEval) bytesOfString(p *pwPath, v ssa.Value) (ssa.Value, bool) {
	v = p.resolve(v)
	switch x := v.(type) {
	case *ssa.Convert:
		if isBasicKind(x.X.Type(), types.String) {
			return x.X, true
		}
	case *ssa.Call:
		cal := x.Call.StaticCallee()
		if cal == nil || !inModule(cal) || len(x.Call.Args) != 1 || cal.Signature.Recv() != nil {
			return nil, false
		}
		if !isBasicKind(cal.Signature.Params().At(0).Type(), types.String) || cal.Signature.Results().Len() != 1 {
			return nil, false
		}
		if sl, ok := cal.Signature.Results().At(0).Type().(*types.Slice); ok {
			if b, ok := sl.Elem().(*types.Basic); ok && b.Kind() == types.Byte {
				return x.Call.Args[0], true
			}
		}
	}
	return nil, false
}

// textKind classifies a written string.
func (se *sinkEval) textKind(p *pwPath, s ssa.Value) string {
	s = p.resolve(s)
	suffix := func(o string) string {
		if o == "elem" {
			return "-elem"
		}
		return ""
	}
	if o := se.origin(p, s); o == "val" || o == "elem" {
		return "verbatim" + suffix(o)
	}
	switch x := s.(type) {
	case *ssa.ChangeType:
		return se.convKind(p, x.X)
	case *ssa.Convert:
		if isBasicKind(x.X.Type().Underlying(), types.String) {
			return se.convKind(p, x.X)
		}
	case *ssa.Call:
		c := &x.Call
		switch {
		case isStaticFunc(c, htmlTplPath, "HTMLEscaper"):
			if len(c.Args) != 1 {
				return "other"
			}
			elems, ok := p.sliceElems(c.Args[0])
			if !ok || len(elems) == 0 {
				return "other"
			}
			kind := ""
			for _, e := range elems {
				o := se.origin(p, e)
				if o != "val" && o != "elem" {
					return "other"
				}
				if kind != "" && kind != o {
					return "other"
				}
				kind = o
			}
			return "escape" + suffix(kind)
		case isStaticFunc(c, htmlTplPath, "HTMLEscapeString"), isStaticFunc(c, "html", "EscapeString"):
			if len(c.Args) == 1 {
				a := p.resolve(c.Args[0])
				if ct, ok := a.(*ssa.ChangeType); ok {
					a = p.resolve(ct.X)
				}
				if o := se.origin(p, a); o == "val" || o == "elem" {
					return "escape" + suffix(o)
				}
			}
			return "other"
		case isStaticFunc(c, "fmt", "Sprint"):
			if len(c.Args) == 1 {
				if elems, ok := p.sliceElems(c.Args[0]); ok && len(elems) == 1 && se.origin(p, elems[0]) == "val" {
					return "sprint"
				}
			}
			return "other"
		case isStaticFunc(c, "fmt", "Sprintf"):
			if len(c.Args) == 2 {
				if _, isConst := p.constOf(c.Args[0]); isConst {
					if elems, ok := p.sliceElems(c.Args[1]); ok && len(elems) == 1 && se.origin(p, elems[0]) == "val" {
						return "sprint"
					}
				}
			}
			return "other"
		}
		if c.IsInvoke() && c.Method.Name() == "String" && len(c.Args) == 0 && se.view(p, c.Value) {
			return "stringer"
		}
		if cal := c.StaticCallee(); cal != nil && cal.Signature.Recv() != nil {
			o := fnObject(cal)
			if o != nil && o.Name() == "Format" && namedIs(cal.Signature.Recv().Type(), "time", "Time") && len(c.Args) == 2 {
				switch se.origin(p, c.Args[0]) {
				case "val":
					return "timefmt"
				case "deref":
					return "timefmt-deref"
				}
			}
			if o != nil && o.Name() == "String" && len(c.Args) == 1 && se.origin(p, c.Args[0]) == "val" {
				return "stringer"
			}
		}
		if cal := c.StaticCallee(); cal != nil {
			if o := fnObject(cal); o != nil && o.Pkg() != nil && o.Pkg().Path() == "strconv" && (strings.HasPrefix(o.Name(), "Format") || o.Name() == "Itoa") && len(c.Args) >= 1 {
				a := p.resolve(c.Args[0])
				if cv, ok := a.(*ssa.Convert); ok {
					a = cv.X
				}
				if se.origin(p, a) == "val" {
					return "sprint"
				}
			}
		}
	}
	return "other"
}

// convKind: string(x).
func (se *sinkEval) convKind(p *pwPath, x ssa.Value) string {
	x = p.resolve(x)
	switch se.origin(p, x) {
	case "val":
		return "verbatim"
	case "elem":
		return "verbatim-elem"
	}
	if c, ok := x.(*ssa.Call); ok {
		if c.Call.IsInvoke() && c.Call.Method.Name() == "HTML" && len(c.Call.Args) == 0 && se.view(p, c.Call.Value) {
			return "htmler"
		}
		if cal := c.Call.StaticCallee(); cal != nil && cal.Signature.Recv() != nil && cal.Name() == "HTML" && len(c.Call.Args) == 1 && se.origin(p, c.Call.Args[0]) == "val" {
			return "htmler"
		}
	}
	if ct, ok := x.(*ssa.ChangeType); ok {
		return se.convKind(p, ct.X)
	}
	return "other"
}

// isBuilder: v is the sink's builder: its builder parameter, or the builder held by its receiver.
func (se *sinkEval) isBuilder(p *pwPath, v ssa.Value) bool {
	v = p.resolve(v)
	if se.bb != nil && v == se.bb {
		return true
	}
	if se.recv == nil {
		return false
	}
	if ld, ok := v.(*ssa.UnOp); ok && ld.Op == token.MUL {
		v = p.resolve(ld.X) // a builder held by pointer
	}
	fa, ok := v.(*ssa.FieldAddr)
	return ok && p.resolve(fa.X) == se.recv && namedIs(deref(fa.Type()), "strings", "Builder")
}

// outputs: what the path writes, in order.
func (se *sinkEval) outputs(p *pwPath) (outs []string, at []token.Pos) {
	for _, ev := range p.events {
		ci, ok := ev.(ssa.CallInstruction)
		if !ok {
			continue
		}
		if _, isDefer := ev.(*ssa.Defer); isDefer {
			continue
		}
		c := ci.Common()
		cal := c.StaticCallee()
		if cal == nil {
			continue
		}
		pos := origInstr(ev).Pos()
		if cal == se.fn || cal.Origin() == se.fn {
			if len(c.Args) != len(se.fn.Params) {
				outs, at = append(outs, "rec:other"), append(at, pos)
				continue
			}
			var varg ssa.Value
			for i, prm := range se.fn.Params {
				if ssa.Value(prm) == se.val {
					varg = c.Args[i]
				}
			}
			k := "rec:other"
			switch se.origin(p, varg) {
			case "val":
				k = "rec:self"
			case "deref":
				k = "rec:deref"
			case "elem":
				k = "rec:elem"
			case "iface":
				k = "rec:iface"
			case "field":
				k = "rec:field"
			}
			outs, at = append(outs, k), append(at, pos)
			continue
		}
		o := fnObject(cal)
		if o == nil || o.Pkg() == nil {
			continue
		}
		if cal.Signature.Recv() != nil && namedIs(cal.Signature.Recv().Type(), "strings", "Builder") && strings.HasPrefix(o.Name(), "Write") && len(c.Args) == 2 {
			if !se.isBuilder(p, c.Args[0]) {
				continue
			}
			switch o.Name() {
			case "WriteString":
				outs, at = append(outs, se.textKind(p, c.Args[1])), append(at, pos)
			case "Write":
				if s, ok := se.bytesOfString(p, c.Args[1]); ok {
					outs, at = append(outs, se.textKind(p, s)), append(at, pos)
				} else {
					outs, at = append(outs, "other"), append(at, pos)
				}
			default:
				outs, at = append(outs, "other"), append(at, pos)
			}
			continue
		}
		if o.Pkg().Path() == "fmt" && strings.HasPrefix(o.Name(), "Fprint") && len(c.Args) > 0 && se.isBuilder(p, stripIface(p.resolve(c.Args[0]))) {
			// fmt.Fprint(bb, v) / fmt.Fprintf(bb, "<const>", v) write what fmt.Sprint / Sprintf of the value yield
			k := "other"
			va := -1
			switch {
			case o.Name() == "Fprint" && len(c.Args) == 2:
				va = 1
			case o.Name() == "Fprintf" && len(c.Args) == 3:
				if _, isConst := p.constOf(c.Args[1]); isConst {
					va = 2
				}
			}
			if va > 0 {
				if elems, ok := p.sliceElems(c.Args[va]); ok && len(elems) == 1 && se.origin(p, elems[0]) == "val" {
					k = "sprint"
				}
			}
			outs, at = append(outs, k), append(at, pos)
			continue
		}
		if o.Pkg().Path() == "io" && o.Name() == "WriteString" && len(c.Args) == 2 && se.isBuilder(p, stripIface(p.resolve(c.Args[0]))) {
			outs, at = append(outs, se.textKind(p, c.Args[1])), append(at, pos)
		}
	}
	return
}

// decide evaluates one branch condition for a class: (value, known).
func (se *sinkEval) decide(p *pwPath, c sinkClass, cond ssa.Value) (bool, bool) {
	switch x := cond.(type) {
	case *ssa.Extract:
		ta, ok := x.Tuple.(*ssa.TypeAssert)
		if !ok || x.Index != 1 || !se.view(p, ta.X) {
			return false, false
		}
		return classAssertable(c, ta.AssertedType), true
	case *ssa.BinOp:
		if x.Op != token.EQL && x.Op != token.NEQ {
			return false, false
		}
		a, b := p.resolve(x.X), p.resolve(x.Y)
		if isNilConst(a) {
			a, b = b, a
		}
		if !isNilConst(b) || !se.view(p, a) {
			return false, false
		}
		isNil := false
		if _, isIface := a.Type().Underlying().(*types.Interface); isIface {
			isNil = c.typ == nil
		} else {
			isNil = c.nilPtr
		}
		return isNil == (x.Op == token.EQL), true
	}
	return false, false
}

func classAssertable(c sinkClass, asserted types.Type) bool {
	if c.typ == nil {
		return false
	}
	if iface, ok := asserted.Underlying().(*types.Interface); ok {
		return types.Implements(c.typ, iface)
	}
	return types.Identical(c.typ, asserted)
}

// synthType builds a named struct type with the given methods (name -> result type).
func synthType(name string, methods map[string]*types.Signature) types.Type {
	pkg := types.NewPackage("plushcheck/synthetic", "synthetic")
	tn := types.NewTypeName(token.NoPos, pkg, name, nil)
	named := types.NewNamed(tn, types.NewStruct(nil, nil), nil)
	var names []string
	for n := range methods {
		names = append(names, n)
	}
	sort.Strings(names)
	for _, n := range names {
		sig := methods[n]
		recv := types.NewVar(token.NoPos, pkg, "r", named)
		named.AddMethod(types.NewFunc(token.NoPos, pkg, n, types.NewSignatureType(recv, nil, nil, sig.Params(), sig.Results(), sig.Variadic())))
	}
	return named
}

// implOf: a synthetic type with exactly the methods of the interfaces (nil if one has unexported methods of another package).
func implOf(name string, ifaces ...*types.Interface) types.Type {
	ms := map[string]*types.Signature{}
	for _, it := range ifaces {
		for i := 0; i < it.NumMethods(); i++ {
			m := it.Method(i)
			if !m.Exported() {
				return nil
			}
			ms[m.Name()] = m.Type().(*types.Signature)
		}
	}
	return synthType(name, ms)
}

func sinkClassesRuleSSA(r *Run, rule string) {
	w := r.W
	sink := w.sinkMethod()
	if sink == nil {
		r.Lost(rule, "output sink")
		return
	}
	fn := w.SSAFunc(sink)
	if fn == nil {
		r.Lost(rule, "SSA form of the output sink")
		return
	}
	se := &sinkEval{w: w, fn: fn, family: map[types.Object]bool{}}
	for _, prm := range fn.Params {
		if namedIs(prm.Type(), "strings", "Builder") {
			se.bb = prm
		} else if it, ok := prm.Type().Underlying().(*types.Interface); ok && it.NumMethods() == 0 {
			se.val = prm
		}
	}
	if se.bb == nil && fn.Signature.Recv() != nil && len(fn.Params) > 0 {
		se.recv = fn.Params[0]
	}
	if (se.bb == nil && se.recv == nil) || se.val == nil {
		r.Lost(rule, "builder and value parameters of the output sink")
		return
	}
	for f := range w.sinkFamily() {
		if f != sink.Obj {
			se.family[f] = true
		}
	}
	pw := &pathWalker{unroll1: true, maxPaths: 20000, inline: func(caller, callee *ssa.Function) bool {
		// a function literal of the sink itself (emit := func(s string) { bb.Write(...) }) is part of the sink
		if top := callee.Parent(); top != nil {
			for top.Parent() != nil {
				top = top.Parent()
			}
			if top == fn {
				return true
			}
		}
		if callee.Signature.Recv() == nil && callee.Signature.Params().Len() == 1 && isBasicKind(callee.Signature.Params().At(0).Type(), types.String) {
			return false // a bytes-of-string helper is recognised as such
		}
		if o, ok := fnObject(callee).(*types.Func); ok {
			if _, isRaw := w.rawWriteHelpers()[o]; isRaw {
				return true
			}
		}
		return se.family[fnObject(callee)]
	}}
	pw.walk(fn)
	if pw.overflow || len(pw.paths) == 0 {
		r.Lost(rule, "paths of the output sink")
		return
	}
	paths := pw.paths
	name := sink.Name()

	// ---- the classes
	htmlT := w.lookupType(htmlTplPath, "HTML")
	timeT := w.lookupType("time", "Time")
	var htmler, stringer, printable *types.Interface
	if nt := w.NamedType("", "HTMLer"); nt != nil {
		htmler, _ = nt.Underlying().(*types.Interface)
	}
	if st := w.lookupType("fmt", "Stringer"); st != nil {
		stringer, _ = st.Underlying().(*types.Interface)
	}
	if pt := w.NamedType("ast", "Printable"); pt != nil {
		printable, _ = pt.Underlying().(*types.Interface)
	}
	if htmlT == nil || timeT == nil || htmler == nil || stringer == nil {
		r.Lost(rule, "template.HTML, time.Time, HTMLer and fmt.Stringer types")
		return
	}
	emptyIface := types.NewInterfaceType(nil, nil)
	ifaceSig := types.NewSignatureType(nil, nil, nil, nil, types.NewTuple(types.NewVar(token.NoPos, nil, "", emptyIface)), false)
	interfaceableT := synthType("interfaceableOnly", map[string]*types.Signature{"Interface": ifaceSig})
	errSig := types.NewSignatureType(nil, nil, nil, nil, types.NewTuple(types.NewVar(token.NoPos, nil, "", types.Typ[types.String])), false)
	namedString := types.NewNamed(types.NewTypeName(token.NoPos, types.NewPackage("plushcheck/synthetic", "synthetic"), "namedString", nil), types.Typ[types.String], nil)
	classes := []sinkClass{
		{name: "string", typ: types.Typ[types.String], want: "escape", must: true},
		{name: "bool", typ: types.Typ[types.Bool], want: "escape", must: true},
		{name: "template.HTML", typ: htmlT, want: "verbatim", must: true},
		{name: "an HTMLer", typ: implOf("htmlerOnly", htmler), want: "htmler", must: true},
		{name: "an HTMLer that is also a fmt.Stringer", typ: implOf("htmlerStringer", htmler, stringer), want: "htmler", must: true},
		{name: "a fmt.Stringer", typ: implOf("stringerOnly", stringer), want: "stringer", must: true},
		{name: "time.Time", typ: timeT, want: "timefmt", must: true},
		{name: "non-nil *time.Time", typ: types.NewPointer(timeT), want: "ptr", must: true},
		{name: "nil *time.Time", typ: types.NewPointer(timeT), nilPtr: true, want: "none", must: true},
		{name: "a value with Interface()", typ: interfaceableT, want: "iface", must: true},
		{name: "[]string", typ: types.NewSlice(types.Typ[types.String]), want: "elems", must: true},
		{name: "[]interface{}", typ: types.NewSlice(emptyIface), want: "elems", must: true},
		{name: "nil", typ: nil, want: "none", must: true},
		{name: "a named string type without methods", typ: namedString, want: "safe"},
		{name: "an error", typ: synthType("errorOnly", map[string]*types.Signature{"Error": errSig}), want: "safe"},
		{name: "map[string]interface{}", typ: types.NewMap(types.Typ[types.String], emptyIface), want: "safe"},
		{name: "[]byte", typ: types.NewSlice(types.Typ[types.Byte]), want: "safe"},
	}
	if printable != nil {
		if t := implOf("printableOnly", printable); t != nil {
			classes = append(classes, sinkClass{name: "an ast.Printable", typ: t, want: "escape", must: true})
		}
	}
	for _, k := range []types.BasicKind{types.Int, types.Int8, types.Int16, types.Int32, types.Int64, types.Uint, types.Uint8, types.Uint16, types.Uint32, types.Uint64, types.Float32, types.Float64} {
		classes = append(classes, sinkClass{name: types.Typ[k].Name(), typ: types.Typ[k], want: "sprint", must: true})
	}
	if ro := w.NamedType("", "returnObject"); ro != nil {
		classes = append(classes, sinkClass{name: "a return wrapper", typ: ro, want: "elems", must: true})
	}
	// every further type the code asserts the value to
	var extra []types.Type
	for _, p := range paths {
		for _, d := range p.decisions {
			x, ok := d.cond.(*ssa.Extract)
			if !ok {
				continue
			}
			ta, ok := x.Tuple.(*ssa.TypeAssert)
			if !ok || x.Index != 1 || !se.view(p, ta.X) {
				continue
			}
			dup := false
			for _, t := range extra {
				if types.Identical(t, ta.AssertedType) {
					dup = true
				}
			}
			if !dup {
				extra = append(extra, ta.AssertedType)
			}
		}
	}
	for _, t := range extra {
		known := false
		if it, ok := t.Underlying().(*types.Interface); ok {
			for _, c := range classes {
				// a class made for exactly this interface
				if c.typ != nil && types.Implements(c.typ, it) && it.NumMethods() > 0 {
					if n, ok := c.typ.(*types.Named); ok && n.NumMethods() == it.NumMethods() && n.Obj().Pkg() != nil && n.Obj().Pkg().Path() == "plushcheck/synthetic" {
						known = true
					}
				}
			}
			if known || it.NumMethods() == 0 {
				continue
			}
			impl := implOf("impl", it)
			if impl == nil {
				// an interface with unexported methods: its implementations are the module's own types
				for _, pk := range w.All {
					sc := pk.Types.Scope()
					for _, n := range sc.Names() {
						tn, ok := sc.Lookup(n).(*types.TypeName)
						if !ok || tn.IsAlias() {
							continue
						}
						if _, isIface := tn.Type().Underlying().(*types.Interface); isIface {
							continue
						}
						for _, cand := range []types.Type{tn.Type(), types.NewPointer(tn.Type())} {
							if types.Implements(cand, it) {
								dupc := false
								for _, c := range classes {
									if c.typ != nil && types.Identical(c.typ, cand) {
										dupc = true
									}
								}
								if !dupc {
									classes = append(classes, sinkClass{name: typeStr(cand), typ: cand, want: "safe"})
								}
								break
							}
						}
					}
				}
				continue
			}
			classes = append(classes, sinkClass{name: "an implementation of " + typeStr(t), typ: impl, want: "safe"})
			continue
		}
		for _, c := range classes {
			if c.typ != nil && types.Identical(c.typ, t) {
				known = true
			}
		}
		if known {
			continue
		}
		want := "safe"
		if b, ok := t.Underlying().(*types.Basic); ok && b.Info()&(types.IsInteger|types.IsFloat) != 0 {
			want = "safenum"
		}
		classes = append(classes, sinkClass{name: typeStr(t), typ: t, want: want})
	}

	// ---- evaluation
	type pathOut struct {
		outs []string
		at   []token.Pos
		p    *pwPath
	}
	all := make([]pathOut, len(paths))
	for i, p := range paths {
		o, at := se.outputs(p)
		all[i] = pathOut{o, at, p}
	}
	for _, c := range classes {
		con := "sink output for " + c.name
		var taken []pathOut
		for _, po := range all {
			consistent := true
			for _, d := range po.p.decisions {
				if b, known := se.decide(po.p, c, d.cond); known && b != d.truth {
					consistent = false
					break
				}
			}
			if consistent {
				taken = append(taken, po)
			}
		}
		pos := fn.Pos()
		if len(taken) == 0 {
			r.Bad(rule, name, con, w.Pos(pos), "no path of the sink is taken by this class")
			continue
		}
		bad := ""
		exact := func(kinds ...string) {
			for _, po := range taken {
				if po.p.end != "return" {
					bad = "the sink does not return on a path taken by this class"
					return
				}
				ok := len(po.outs) == 1
				if ok {
					ok = false
					for _, k := range kinds {
						if po.outs[0] == k {
							ok = true
						}
					}
				}
				if !ok {
					if len(po.at) > 0 {
						pos = po.at[0]
					} else if po.p.ret != nil {
						pos = po.p.ret.Pos()
					}
					bad = fmt.Sprintf("writes [%s]", strings.Join(po.outs, ","))
					return
				}
			}
		}
		subset := func(max int, kinds ...string) {
			for _, po := range taken {
				if po.p.end != "return" {
					bad = "the sink does not return on a path taken by this class"
					return
				}
				if max >= 0 && len(po.outs) > max {
					pos = po.at[max]
					bad = fmt.Sprintf("writes [%s]", strings.Join(po.outs, ","))
					return
				}
				for i, o := range po.outs {
					ok := false
					for _, k := range kinds {
						if o == k {
							ok = true
						}
					}
					if !ok {
						pos = po.at[i]
						bad = fmt.Sprintf("writes [%s]", strings.Join(po.outs, ","))
						return
					}
				}
			}
		}
		why, okMsg := "", ""
		switch c.want {
		case "escape":
			exact("escape")
			why = "a Go string, bool or printable node must be written as the result of the HTML escaper applied to the value, exactly once, on every path; a raw, formatted, conditional or missing write lets < > & ' \" through or drops the value"
			okMsg = "the HTML escaper applied to the value, once, on every path"
		case "verbatim":
			exact("verbatim")
			why = "trusted HTML must be written verbatim exactly once (never escaped, never formatted, never twice, never dropped)"
			okMsg = "one verbatim write of the value on every path"
		case "htmler":
			exact("htmler")
			why = "an HTMLer must be written as its HTML() exactly once, also when it is a fmt.Stringer as well"
			okMsg = "one verbatim write of its HTML() on every path"
		case "sprint":
			exact("sprint")
			why = "numbers are written as their formatted rendering (frozen safe table)"
			okMsg = "frozen safe table: formatted rendering"
		case "stringer":
			exact("stringer")
			why = "a fmt.Stringer is written as its String() (frozen safe table)"
			okMsg = "frozen safe table: its String()"
		case "timefmt":
			exact("timefmt")
			why = "a time.Time is written through Format (frozen safe table)"
			okMsg = "frozen safe table: Format"
		case "ptr":
			exact("rec:deref", "timefmt-deref")
			why = "a non-nil *time.Time is written as the time it points to"
			okMsg = "re-dispatched as the time it points to"
		case "iface":
			exact("rec:iface")
			why = "a wrapper with Interface() is re-dispatched with the wrapped value, so that the wrapped value's own type decides between escaping and verbatim output"
			okMsg = "re-dispatched with Interface()"
		case "none":
			subset(0)
			why = "nothing is written for this value"
			okMsg = "nothing is written"
		case "elems":
			kinds := []string{"rec:elem"}
			if sl, ok := c.typ.(*types.Slice); ok && isBasicKind(sl.Elem(), types.String) {
				kinds = append(kinds, "escape-elem")
			}
			if _, isSlice := c.typ.(*types.Slice); !isSlice {
				kinds = append(kinds, "rec:field") // a wrapper hands its container to the sink, which writes it element by element
			}
			subset(1, kinds...)
			if bad == "" {
				one := false
				for _, po := range taken {
					if len(po.outs) == 1 {
						one = true
					}
				}
				if !one {
					bad = "no path writes an element"
				}
			}
			why = "a container is written element by element, each element through the sink (or, for strings, through the HTML escaper); joining, formatting or skipping the elements bypasses the typed dispatch"
			okMsg = "each element goes through the sink"
		case "safe":
			subset(-1, "escape", "escape-elem", "rec:elem", "rec:deref", "rec:iface", "rec:field")
			why = "a type outside the frozen safe table (numbers, time.Time, fmt.Stringer, template.HTML, HTMLer) may be escaped, re-dispatched or left out, but never written in a rendering of its own: strings inside it would reach the output unescaped"
			okMsg = "escaped, re-dispatched or not written"
		case "safenum":
			subset(-1, "escape", "sprint")
			why = "a numeric type is formatted or escaped"
			okMsg = "formatted or escaped"
		}
		if bad == "" {
			r.Ok(rule, name, con, w.Pos(pos), fmt.Sprintf("%s (%d path(s))", okMsg, len(taken)))
		} else {
			r.Bad(rule, name, con, w.Pos(pos), bad+": "+why)
		}
	}
}

// topLevelOnceRuleSSA (C02.R1): on every path of the top-level evaluator (its private helpers
// inlined, the statement loop taken zero times and once) a statement is written at most once,
// a <%= %> value is written exactly once, nothing is written on the way to an error exit, and
// the text returned is what the builder holds after the loop.
func topLevelOnceRuleSSA(r *Run, rule string) {
	w := r.W
	m := w.coreModel()
	if m.top == nil || m.sink == nil || m.ret == nil {
		r.Lost(rule, "top-level evaluator / sink / return evaluator")
		return
	}
	paths, ok := walkPathsUnrolled(m.top, nil, m.inline, 20000)
	if !ok || len(paths) == 0 {
		r.Lost(rule, "paths of the top-level evaluator")
		return
	}
	name := ssaName(m.top)
	isOutput := func(p *pwPath, ev ssa.Instruction) (bool, ssa.Value, ssa.Value) {
		c, ok := ev.(*ssa.Call)
		if !ok {
			return false, nil, nil
		}
		cal := c.Call.StaticCallee()
		if cal == nil {
			return false, nil, nil
		}
		if cal == m.sink {
			va := w.sinkValueArg(&c.Call)
			if va == nil {
				return false, nil, nil
			}
			v := p.resolve(va)
			if isNilConst(v) || isNilConst(p.resolve(stripIface(v))) {
				return false, nil, nil // writes nothing
			}
			// the builder: the argument of builder type, or the receiver that holds it
			var b ssa.Value
			for _, a := range c.Call.Args {
				if namedIs(a.Type(), "strings", "Builder") {
					b = a
				}
			}
			if b == nil && len(c.Call.Args) > 0 {
				b = c.Call.Args[0]
			}
			return true, builderOwner(p, b), v
		}
		if cal.Signature.Recv() != nil && namedIs(cal.Signature.Recv().Type(), "strings", "Builder") && strings.HasPrefix(cal.Name(), "Write") && len(c.Call.Args) >= 1 {
			return true, builderOwner(p, c.Call.Args[0]), nil
		}
		return false, nil, nil
	}
	nOK, nIter := 0, 0
	bad := func(pos token.Pos, con, why string) {
		r.Bad(rule, name, con, w.Pos(pos), why)
	}
	reported := map[string]bool{}
	for _, p := range paths {
		if p.end != "return" || len(p.results) != 2 {
			continue
		}
		isErr := !p.knownNil(p.results[1])
		iters := len(p.marks)
		var outs []ssa.Instruction
		var builders []ssa.Value
		retVal := ssa.Value(nil)
		retWritten := false
		for _, ev := range p.events {
			if c, ok := ev.(*ssa.Call); ok && c.Call.StaticCallee() == m.ret {
				retVal = c
			}
			if isOut, b, v := isOutput(p, ev); isOut {
				outs = append(outs, ev)
				builders = append(builders, b)
				if v != nil && retVal != nil {
					if cal, call := evalResult(p, v, 0); cal == m.ret && ssa.Value(call) == retVal {
						retWritten = true
					}
				}
			}
		}
		switch {
		case isErr:
			// what was written before the failure is discarded with the builder; nothing to require
			continue
		case iters == 0 && len(outs) > 0:
			if !reported["zero"] {
				reported["zero"] = true
				bad(origInstr(outs[0]).Pos(), "output without a statement", "something is written although no statement was processed")
			}
			continue
		case len(outs) > 1 || (iters > 0 && len(outs) > iters):
			if !reported["twice"] {
				reported["twice"] = true
				bad(origInstr(outs[1]).Pos(), fmt.Sprintf("%d writes for one statement", len(outs)), "each statement's value must be written exactly once, after its error was checked")
			}
			continue
		case retVal != nil && !retWritten && func() bool {
			// the write is skipped where the value was found to be nil: the sink writes nothing for nil (C01.R2)
			for _, d := range p.decisions {
				x, op, isCmp := isNilCompare(p, d.cond)
				if !isCmp || d.truth != (op == token.EQL) {
					continue
				}
				if cal, call := evalResult(p, x, 0); cal == m.ret && ssa.Value(call) == retVal {
					return true
				}
			}
			return false
		}():
			// nothing to write
		case retVal != nil && !retWritten:
			if !reported["ret"] {
				reported["ret"] = true
				bad(retVal.Pos(), "value of a <%= %> statement not written", "the value the return-statement evaluator yields must reach the sink on every path that does not fail")
			}
			continue
		}
		// the text returned: String() of the builder that received the writes, called after them
		sc, isCall := p.resolve(p.results[0]).(*ssa.Call)
		okRet := isCall && sc.Call.StaticCallee() != nil && sc.Call.StaticCallee().Name() == "String" && sc.Call.StaticCallee().Signature.Recv() != nil &&
			namedIs(sc.Call.StaticCallee().Signature.Recv().Type(), "strings", "Builder") && len(sc.Call.Args) == 1
		if okRet {
			for _, b := range builders {
				if b != builderOwner(p, sc.Call.Args[0]) {
					okRet = false
				}
			}
			// the String() call comes after every write
			seen := false
			for _, ev := range p.events {
				if ev == ssa.Instruction(sc) {
					seen = true
				} else if isOut, _, _ := isOutput(p, ev); isOut && seen {
					okRet = false
				}
			}
		}
		if !okRet {
			if !reported["return"] {
				reported["return"] = true
				bad(p.ret.Pos(), "return of the output", "the accumulated output must be returned once, after every statement was processed: String() of the builder the statements were written to")
			}
			continue
		}
		nOK++
		if iters > 0 {
			nIter++
		}
	}
	if len(reported) == 0 {
		if nIter == 0 {
			r.Lost(rule, "a path of the top-level evaluator that processes a statement")
			return
		}
		r.Ok(rule, name, "one write per statement, output returned after the loop", w.Pos(m.top.Pos()), fmt.Sprintf("%d successful path(s): at most one write per statement, a <%%= %%> value always written, String() of the same builder after the last write", nOK))
	}
}

// builderOwner: the object a builder belongs to: the builder itself, or the struct that embeds / holds it.
func builderOwner(p *pwPath, b ssa.Value) ssa.Value {
	b = p.resolve(b)
	if ld, ok := b.(*ssa.UnOp); ok && ld.Op == token.MUL {
		if fa, ok := p.resolve(ld.X).(*ssa.FieldAddr); ok {
			return p.resolve(fa.X)
		}
	}
	if fa, ok := b.(*ssa.FieldAddr); ok {
		return p.resolve(fa.X)
	}
	return b
}

// renderedTextRule (C01.R6): text that already went through the sink (the String() of a builder)
// leaves the evaluator package only as a string result of a function (the rendered template, the
// rendered block handed to a helper) or re-labelled as template.HTML. Boxed into an interface as a
// plain string it would become a template value again and be escaped a second time.
func renderedTextRule(r *Run, rule string) {
	w := r.W
	w.SSA()
	pkg := w.SSAPkg("")
	if pkg == nil {
		r.Lost(rule, "evaluator package")
		return
	}
	n := 0
	for _, fn := range functionsOf(pkg) {
		for _, b := range fn.Blocks {
			for _, ins := range b.Instrs {
				call, ok := ins.(*ssa.Call)
				if !ok {
					continue
				}
				cal := call.Call.StaticCallee()
				if cal == nil || cal.Signature.Recv() == nil || cal.Name() != "String" || !namedIs(cal.Signature.Recv().Type(), "strings", "Builder") {
					continue
				}
				// a Stringer implementation builds its own text with a builder: not rendered output
				if fn.Signature.Recv() != nil && fn.Name() == "String" && fn.Signature.Params().Len() == 0 {
					continue
				}
				n++
				name := ssaName(fn)
				con := "use of " + valueText(call) + " = builder.String()"
				bad := ""
				seen := map[ssa.Value]bool{}
				var follow func(v ssa.Value, depth int)
				follow = func(v ssa.Value, depth int) {
					if seen[v] || depth > 6 || v.Referrers() == nil {
						return
					}
					seen[v] = true
					for _, ref := range *v.Referrers() {
						switch x := ref.(type) {
						case *ssa.MakeInterface:
							if isBasicKind(x.X.Type(), types.String) && !isNamed(x.X.Type()) {
								// boxed as a plain string: fine only as an operand of an error message or a log call
								okUse := true
								for _, r2 := range *x.Referrers() {
									switch y := r2.(type) {
									case *ssa.Store:
										// an element of a variadic argument list (fmt.Errorf(..., text))
										if _, isIA := y.Addr.(*ssa.IndexAddr); !isIA {
											okUse = false
										}
									case *ssa.DebugRef:
									default:
										okUse = false
									}
								}
								if !okUse {
									bad = "rendered text is boxed into an interface as a plain string: as a template value it is escaped a second time (markup comes out as &lt;b&gt;); it must be template.HTML"
								}
							}
						case *ssa.Phi:
							follow(x, depth+1)
						case *ssa.ChangeType, *ssa.Convert:
							// template.HTML(text) and friends
						case *ssa.Store:
							if al, ok := x.Addr.(*ssa.Alloc); ok && x.Val == v {
								for _, r2 := range *al.Referrers() {
									if ld, ok := r2.(*ssa.UnOp); ok && ld.Op == token.MUL {
										follow(ld, depth+1)
									}
								}
							}
						}
					}
				}
				follow(call, 0)
				if bad != "" {
					r.Bad(rule, name, con, w.Pos(call.Pos()), bad)
				} else {
					r.Ok(rule, name, con, w.Pos(call.Pos()), "returned as the rendered string, or re-labelled as template.HTML")
				}
			}
		}
	}
	if n == 0 {
		r.Lost(rule, "String() of an output builder in the evaluator package")
	}
}
