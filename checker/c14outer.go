package main

// c14outer.go (C14.R7): an execution writes only into scopes of its own. Executions that run in separate child
// contexts of one shared parent are independent only if nothing they do lands in the parent: the link from a
// scope to its outer scope is a read path. Decided on the value graph of the context type's package: every value
// that denotes "the outer scope of some scope" - a load of Context.outer, a phi or a local that may hold one -
// is used only
//
//	to be compared (with nil),
//	to read its fields (the mutex for Lock/Unlock, the map for lookups, ranges and len, the next outer link),
//	as the receiver of a method of the context type that itself uses its receiver only in these ways;
//
// it is never returned or converted to an interface (handed out: a helper could Set on it), never stored away,
// never passed as another argument, no field of it is stored to and its map is not updated.

import (
	"fmt"
	"go/token"
	"go/types"
	"sort"

	"golang.org/x/tools/go/ssa"
)

func outerReadOnlyRule(r *Run, rule string) {
	w := r.W
	w.SSA()
	pkg := w.SSAPkg("")
	ct := w.NamedType("", "Context")
	if pkg == nil || ct == nil {
		r.Lost(rule, "Context type")
		return
	}
	st, ok := ct.Underlying().(*types.Struct)
	if !ok {
		r.Lost(rule, "Context struct")
		return
	}
	// the outer link: the field whose type is a pointer to the context type itself
	outerIdx := -1
	for i := 0; i < st.NumFields(); i++ {
		if pt, isPtr := st.Field(i).Type().(*types.Pointer); isPtr && types.Identical(pt.Elem(), ct) {
			outerIdx = i
		}
	}
	if outerIdx < 0 {
		r.Lost(rule, "the outer link of Context")
		return
	}
	isCtxPtr := func(t types.Type) bool {
		pt, ok := t.(*types.Pointer)
		return ok && types.Identical(pt.Elem(), ct)
	}
	type verdict struct {
		why string
		pos token.Pos
	}
	// readOnly: the value v (a *Context) is used in fn only in the licensed ways; memoised per (function, receiver)
	type paramKey struct {
		fn  *ssa.Function
		idx int
		m   bool
	}
	paramMemo := map[paramKey]*verdict{}
	inProgress := map[paramKey]bool{}
	var usesOK func(v ssa.Value, seen map[ssa.Value]bool, depth int) *verdict
	var mapUsesOK func(v ssa.Value, seen map[ssa.Value]bool, depth int) *verdict
	// paramReadOnly: parameter idx of g (a scope, or with isMap the map of a scope) is only read in g
	paramReadOnly := func(g *ssa.Function, idx int, isMap bool) *verdict {
		k := paramKey{g, idx, isMap}
		if v, done := paramMemo[k]; done {
			return v
		}
		if inProgress[k] {
			return nil // a method that consults its own outer by calling itself: judged by its other uses
		}
		if len(g.Blocks) == 0 || idx >= len(g.Params) || !inModule(g) {
			return &verdict{"it is handed to " + ssaName(g) + ", whose body is not known", g.Pos()}
		}
		inProgress[k] = true
		var res *verdict
		if isMap {
			res = mapUsesOK(g.Params[idx], map[ssa.Value]bool{}, 0)
		} else {
			res = usesOK(g.Params[idx], map[ssa.Value]bool{}, 0)
		}
		inProgress[k] = false
		paramMemo[k] = res
		return res
	}
	argIndex := func(c *ssa.CallCommon, v ssa.Value) []int {
		var out []int
		for i, a := range c.Args {
			if a == v {
				out = append(out, i)
			}
		}
		return out
	}
	// the map of a scope: looked up, ranged over, measured, or handed to a function of the module that does only that
	mapUsesOK = func(v ssa.Value, seen map[ssa.Value]bool, depth int) *verdict {
		if seen[v] || v.Referrers() == nil {
			return nil
		}
		seen[v] = true
		if depth > 10 {
			return nil
		}
		for _, ref := range *v.Referrers() {
			switch z := ref.(type) {
			case *ssa.MapUpdate:
				if z.Map == v {
					return &verdict{"the map of an outer scope is written", z.Pos()}
				}
			case *ssa.Phi:
				if bad := mapUsesOK(z, seen, depth+1); bad != nil {
					return bad
				}
			case *ssa.Call:
				if b, isB := z.Call.Value.(*ssa.Builtin); isB {
					if b.Name() == "delete" || b.Name() == "clear" {
						return &verdict{"the map of an outer scope is written (" + b.Name() + ")", z.Pos()}
					}
					continue
				}
				g := z.Call.StaticCallee()
				if g == nil || !inModule(g) {
					if g != nil && g.Pkg != nil && (g.Pkg.Pkg.Path() == "maps" || g.Pkg.Pkg.Path() == "reflect") {
						// maps.Copy(dst, src) writes dst only; maps.Keys/Values/Clone read
						if g.Name() == "Copy" && len(z.Call.Args) == 2 && z.Call.Args[0] == v {
							return &verdict{"the map of an outer scope is written (maps.Copy into it)", z.Pos()}
						}
						continue
					}
					continue
				}
				for _, i := range argIndex(&z.Call, v) {
					if bad := paramReadOnly(g, i, true); bad != nil {
						return &verdict{"the map of an outer scope is handed to " + ssaName(g) + ", which writes it (" + bad.why + ")", z.Pos()}
					}
				}
			}
		}
		return nil
	}
	usesOK = func(v ssa.Value, seen map[ssa.Value]bool, depth int) *verdict {
		if seen[v] || v.Referrers() == nil {
			return nil
		}
		seen[v] = true
		if depth > 10 {
			return &verdict{"the uses of the outer scope cannot be followed", v.Pos()}
		}
		for _, ref := range *v.Referrers() {
			switch x := ref.(type) {
			case *ssa.BinOp:
				if x.Op != token.EQL && x.Op != token.NEQ {
					return &verdict{"the outer scope is used in a computation", x.Pos()}
				}
			case *ssa.Phi:
				if bad := usesOK(x, seen, depth+1); bad != nil {
					return bad
				}
			case *ssa.DebugRef:
			case *ssa.FieldAddr:
				if x.X != v {
					continue
				}
				for _, r2 := range *x.Referrers() {
					switch y := r2.(type) {
					case *ssa.UnOp:
						if y.Op != token.MUL {
							return &verdict{"a field of the outer scope is used in a computation", y.Pos()}
						}
						if x.Field == outerIdx {
							if bad := usesOK(y, seen, depth+1); bad != nil {
								return bad
							}
							continue
						}
						// the loaded field: a map may be read, not written
						if _, isMap := y.Type().Underlying().(*types.Map); isMap {
							if bad := mapUsesOK(y, map[ssa.Value]bool{}, depth+1); bad != nil {
								return bad
							}
						}
					case *ssa.Store:
						if y.Addr == ssa.Value(x) {
							return &verdict{"a field of an outer scope is written", y.Pos()}
						}
						return &verdict{"the address of a field of an outer scope is stored away", y.Pos()}
					case *ssa.Call:
						// the mutex: Lock / Unlock / RLock / RUnlock on the field's address
						if g := y.Call.StaticCallee(); g != nil && g.Pkg != nil && g.Pkg.Pkg.Path() == "sync" && len(y.Call.Args) > 0 && y.Call.Args[0] == ssa.Value(x) {
							continue
						}
						return &verdict{"the address of a field of an outer scope is handed to " + calleeLabel(y), y.Pos()}
					case *ssa.Defer:
						if g := y.Call.StaticCallee(); g != nil && g.Pkg != nil && g.Pkg.Pkg.Path() == "sync" {
							continue
						}
						return &verdict{"the address of a field of an outer scope is handed to a deferred call", y.Pos()}
					case *ssa.DebugRef:
					default:
						return &verdict{fmt.Sprintf("the address of a field of an outer scope is used by %T", r2), r2.Pos()}
					}
				}
			case *ssa.Call, *ssa.Defer, *ssa.Go:
				common := x.(ssa.CallInstruction).Common()
				if b, isB := common.Value.(*ssa.Builtin); isB {
					_ = b // append(chain, scope), len ...: the scope sits in a local list
					continue
				}
				g := common.StaticCallee()
				if g == nil || !inModule(g) {
					return &verdict{"the outer scope is passed to " + callName(common) + ": what is done with it there is a write as far as this rule can tell", ref.Pos()}
				}
				for _, i := range argIndex(common, v) {
					if bad := paramReadOnly(g, i, false); bad != nil {
						return &verdict{"the outer scope is handed to " + ssaName(g) + ", which does not only read it (" + bad.why + ")", ref.Pos()}
					}
				}
			case *ssa.Store:
				if x.Val != v {
					continue
				}
				// a local kept in a cell: what is loaded from it is the same scope
				if al, isAlloc := x.Addr.(*ssa.Alloc); isAlloc && !al.Heap && al.Referrers() != nil {
					for _, r2 := range *al.Referrers() {
						if ld, isLoad := r2.(*ssa.UnOp); isLoad && ld.Op == token.MUL {
							if bad := usesOK(ld, seen, depth+1); bad != nil {
								return bad
							}
						}
					}
					continue
				}
				if _, isElem := x.Addr.(*ssa.IndexAddr); isElem {
					continue // an element of a list of scopes (the chain, collected to be walked outermost first)
				}
				return &verdict{"the outer scope is stored away", x.Pos()}
			case *ssa.Return:
				if o := fnObject(x.Parent()); o == nil || o.Exported() {
					return &verdict{"the outer scope is returned by an exported function: whoever gets it can Set on it, and what it sets is seen by every execution that shares that scope", x.Pos()}
				}
			case *ssa.MakeInterface, *ssa.ChangeType, *ssa.Convert:
				return &verdict{"the outer scope is converted and handed on: whoever gets it can Set on it, and what it sets is seen by every execution that shares that scope", ref.Pos()}
			case *ssa.UnOp:
				// *outer: a copy of the struct
				return &verdict{"the outer scope is copied as a whole", x.Pos()}
			default:
				return &verdict{fmt.Sprintf("the outer scope is used by %T", ref), ref.Pos()}
			}
		}
		return nil
	}
	nLoads := 0
	var names []string
	for _, fn := range functionsOf(pkg) {
		var first *verdict
		n := 0
		var at token.Pos
		for _, b := range fn.Blocks {
			for _, ins := range b.Instrs {
				ld, ok := ins.(*ssa.UnOp)
				if !ok || ld.Op != token.MUL {
					continue
				}
				fa, ok := ld.X.(*ssa.FieldAddr)
				if !ok || fa.Field != outerIdx || !isCtxPtr(fa.X.Type()) {
					continue
				}
				n++
				if at == token.NoPos {
					at = ld.Pos()
				}
				if bad := usesOK(ld, map[ssa.Value]bool{}, 0); bad != nil && first == nil {
					first = bad
				}
			}
		}
		if n == 0 {
			continue
		}
		nLoads += n
		con := "the outer scope is only read"
		if first != nil {
			r.Bad(rule, ssaName(fn), con, w.Pos(first.pos), first.why)
		} else {
			r.Ok(rule, ssaName(fn), con, w.Pos(at), fmt.Sprintf("%d read(s) of the outer link: compared, read through, or the receiver of a method that only reads", n))
			names = append(names, ssaName(fn))
		}
	}
	if nLoads == 0 {
		r.Lost(rule, "reads of the outer link of Context")
		return
	}
	sort.Strings(names)
	r.Note("R7: the outer link is read in %v", names)
}

func callName(c *ssa.CallCommon) string {
	if g := c.StaticCallee(); g != nil {
		return ssaName(g)
	}
	if c.IsInvoke() {
		return c.Method.Name()
	}
	return "a function value"
}
