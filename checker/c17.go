package main

import (
	"fmt"
	"go/ast"
	"go/types"

	"golang.org/x/tools/go/ssa"
)

func init() {
	register("C17", checkC17, "textual equality with the inline rendering; the JS-escaping condition (content type, extension) as values")
	register("C20", checkC20, "what the standard library's escapers and json.Marshal emit (trusted base), the JSON decoding round trip, concrete truncation results")
}

func checkC17(r *Run) {
	r.Rule("R1", "exactly once: on every path to a success return PartialHelper calls the feeder once and renders once per layout level; BlockWith evaluates the block once and writes once; ContentOf either calls the stored closure or renders its own block, once; the stored closure renders once", 1)
	r.Rule("R2", "contentFor emits nothing and registers under \"contentFor:\"+name; contentOf looks up the same key", 1)
	r.Rule("R3", "data reaches the block/partial: the child scope that receives the data map is the one rendered with (C09.R4) and the data ranged over is the function's own parameter", 1)
	r.Rule("R4", "unescaped, unmodified: results are template.HTML of the rendered text; between render and result only the content-type-conditional JS escape may intervene, and it precedes the layout step; yield is template.HTML of the (already escaped) part", 1)
	r.Rule("R5", "the block reaches the helper: the parser attaches a '{ ... }' after a call to the call node, and the auto-supplied helper context carries it (C12.R5)", 1)
	r.Rule("R6", "rendering a block leaves the evaluator in the scope it found: BlockWith (and every other scope installer) restores the saved scope by defer (C09.R1)", 1)
	r.Rule("R7", "a template is executed in the context it is given: where an evaluator is built its scope is the context parameter itself (a top-level contentFor must be found by the layout rendered afterwards with the same context)", 1)
	execScopeRule(r, "R7")
	scopeDisciplineRuleSSA(r, "R6")
	exactlyOnceRule(r, "R1")
	contentRulesSSA(r, "R1", "R2", "R3", "")
	contentRulesSSA(r, "", "", "", "R3")
	partialResultTypeRule(r, "R4")
	blockHandOverRule(r, "R5")
}

func onlyCount(m map[int]bool, want int) bool {
	return len(m) == 1 && m[want]
}

func exactlyOnceRule(r *Run, rule string) {
	_ = r.W
	succ := func(info *types.Info) func(*ast.ReturnStmt) bool {
		return func(ret *ast.ReturnStmt) bool {
			if len(ret.Results) != 2 {
				return false
			}
			// a success return: the error operand is nil or the (tested) err variable; exclude constructed errors and plain `err` right after a failed test
			e := unparen(ret.Results[1])
			if isNilIdent(info, e) {
				return true
			}
			if _, isCall := e.(*ast.CallExpr); isCall {
				return false
			}
			// `return X, err` at the very end of a function (err proven nil) counts as success when the first result is not the zero value
			if s, ok := constString(info, ret.Results[0]); ok && s == "" {
				return false
			}
			if c, ok := unparen(ret.Results[0]).(*ast.CallExpr); ok {
				if _, isConv := isConversion(info, c); isConv {
					if s, ok := constString(info, c.Args[0]); ok && s == "" {
						return false
					}
				}
			}
			return true
		}
	}
	_ = succ
	partialRulesSSA(r, "R3", rule, "R3", "R4")
	blockWithOnceRuleSSA(r, rule)
}

func keys(m map[int]bool) []int {
	var out []int
	for k := range m {
		out = append(out, k)
	}
	for i := range out {
		for j := i + 1; j < len(out); j++ {
			if out[j] < out[i] {
				out[i], out[j] = out[j], out[i]
			}
		}
	}
	return out
}

func partialResultTypeRule(r *Run, rule string) {
	w := r.W
	f := w.Func("", "PartialHelper")
	if f == nil {
		r.Lost(rule, "PartialHelper")
		return
	}
	// result type
	sig := f.Obj.Type().(*types.Signature)
	if namedIs(sig.Results().At(0).Type(), htmlTplPath, "HTML") {
		r.Ok(rule, f.Name(), "result type template.HTML", w.Pos(f.Decl.Pos()), "inserted unescaped")
	} else {
		r.Bad(rule, f.Name(), "result type", w.Pos(f.Decl.Pos()), "a partial's result must be template.HTML so that it is inserted unescaped")
	}
	for _, name := range []string{"ContentOf"} {
		if g := w.Func("helpers/content", name); g != nil {
			gs := g.Obj.Type().(*types.Signature)
			if gs.Results().Len() == 2 && namedIs(gs.Results().At(0).Type(), htmlTplPath, "HTML") {
				r.Ok(rule, g.Name(), "result type template.HTML", w.Pos(g.Decl.Pos()), "inserted unescaped")
			} else {
				r.Bad(rule, g.Name(), "result type", w.Pos(g.Decl.Pos()), "contentOf's result must be template.HTML")
			}
		}
	}
}

func blockHandOverRule(r *Run, rule string) {
	w := r.W
	pm := w.parserModel()
	if len(pm.problems) > 0 {
		r.Lost(rule, "parser model")
		return
	}
	f := w.registeredFn("(", true)
	if f == nil {
		r.Lost(rule, "infix function registered for '('")
		return
	}
	info := pm.info
	ok := false
	inspectBody(f.Decl.Body, false, func(n ast.Node) bool {
		ifs, isIf := n.(*ast.IfStmt)
		if !isIf {
			return true
		}
		c, isPeek := pm.isCallOf(ifs.Cond, pm.peekIs)
		if !isPeek {
			return true
		}
		if t, _ := pm.tokenArg(c); t != "{" {
			return true
		}
		for _, st := range ifs.Body.List {
			if as, isAs := st.(*ast.AssignStmt); isAs && len(as.Lhs) == 1 && len(as.Rhs) == 1 {
				if _, fld := fieldOf(info, as.Lhs[0]); fld != nil && fld.Name() == "Block" {
					if _, isBP := pm.isCallOf(as.Rhs[0], pm.blockParse); isBP {
						ok = true
					}
				}
			}
		}
		return true
	})
	if ok {
		r.Ok(rule, f.Name(), "'{' after a call is parsed into the call's Block", w.Pos(f.Decl.Pos()), "if peek is '{' { advance; exp.Block = parseBlock() }")
	} else {
		r.Bad(rule, f.Name(), "block after a call", w.Pos(f.Decl.Pos()), "a '{ ... }' that follows a call must be attached to the call node")
	}
	// C12.R5 part: the automatic helper context carries the call's block
	helperBlockRule(r, rule)
}

// ---- C20 ---------------------------------------------------------------------

func checkC20(r *Run) {
	r.Rule("R1", "escaping helpers delegate to the standard escapers as the last step: every success return of htmlEscape is template.HTMLEscapeString of the string (or block rendering); jsEscape IS template.JSEscapeString", 1)
	r.Rule("R2", "raw is the identity conversion of its parameter (and the sink writes template.HTML verbatim, C01.R2)", 1)
	r.Rule("R3", "toJSON returns template.HTML of the unmodified json.Marshal output on every success path; errors propagate; nothing in the module switches HTML escaping of JSON off", 1)
	r.Rule("R4", "truncate never splits a character: every slice and every length compared with size is taken on []rune", 1)
	r.Rule("R5", "truncate bounds: the prefix slice is dominated by 'len(runes) <= size -> return s' and 'len(trail runes) >= size -> return trail'; the result is prefix + trail", 1)
	r.Rule("R6", "option access: options are read with comma-ok assertions and the options map is never written", 1)
	escapersRule(r, "R1")
	rawRule(r, "R2")
	jsonRule(r, "R3")
	truncateRule(r)
}

func escapersRule(r *Run, rule string) {
	w := r.W
	roots := w.helperRoots()
	var htmlEsc, jsEsc *types.Func
	for fn, key := range roots {
		switch key {
		case "htmlEscape":
			htmlEsc = fn
		case "jsEscape":
			jsEsc = fn
		}
	}
	// jsEscape: registered value is the package-level var initialised with template.JSEscapeString,
	// or the function itself
	okJS := false
	if jsEsc != nil && funcIs(jsEsc, htmlTplPath, "JSEscapeString") {
		okJS = true
	}
	if !okJS {
		// a variable: find `JSEscapeKey: JSEscape` and the var's initialiser
		p := w.Pkgs["helpers/escapes"]
		if p != nil {
			info := p.TypesInfo
			for _, file := range p.Syntax {
				ast.Inspect(file, func(n ast.Node) bool {
					kv, ok := n.(*ast.KeyValueExpr)
					if !ok {
						return true
					}
					if s, ok := constString(info, kv.Key); !ok || s != "jsEscape" {
						return true
					}
					if v, ok := objOf(info, kv.Value).(*types.Var); ok {
						// initialiser
						for _, f2 := range p.Syntax {
							for _, d := range f2.Decls {
								gd, ok := d.(*ast.GenDecl)
								if !ok {
									continue
								}
								for _, sp := range gd.Specs {
									vs, ok := sp.(*ast.ValueSpec)
									if !ok {
										continue
									}
									for i, nm := range vs.Names {
										if info.Defs[nm] == types.Object(v) && i < len(vs.Values) {
											if fn := funcValue(info, vs.Values[i]); fn != nil && funcIs(fn, htmlTplPath, "JSEscapeString") {
												okJS = true
											}
										}
									}
								}
							}
						}
						// never reassigned
						for _, fi := range w.AllFuncs() {
							ast.Inspect(fi.Decl.Body, func(m ast.Node) bool {
								if as, ok := m.(*ast.AssignStmt); ok {
									for _, l := range as.Lhs {
										if objOf(fi.Pkg.TypesInfo, l) == types.Object(v) {
											okJS = false
										}
									}
								}
								return true
							})
						}
					}
					return true
				})
			}
		}
	}
	if okJS {
		r.Ok(rule, "helpers/escapes", "jsEscape is template.JSEscapeString", "helpers/escapes/js.go", "registered value is the standard escaper itself")
	} else {
		r.Bad(rule, "helpers/escapes", "jsEscape is not template.JSEscapeString itself", "helpers/escapes/js.go",
			"the jsEscape helper must be the standard escaper; a wrapper (fast path, pre-scan) can let characters through that the standard escaper would escape")
	}
	f := w.FuncOf(htmlEsc)
	if f == nil {
		r.Lost(rule, "function registered as htmlEscape")
		return
	}
	fn := w.SSAFunc(f)
	if fn == nil || len(fn.Params) < 1 {
		r.Lost(rule, "SSA form of htmlEscape")
		return
	}
	paths, ok := walkPaths(fn, nil, func(caller, callee *ssa.Function) bool { return pkgOf(callee) == fn.Pkg })
	if !ok {
		r.Lost(rule, "paths of htmlEscape")
		return
	}
	sParam := ssa.Value(fn.Params[0])
	n := 0
	for _, p := range paths {
		if p.end != "return" || len(p.results) != 2 || !isNilErrorResult(p.results[1]) {
			continue
		}
		n++
		res := p.resolve(p.results[0])
		good := false
		what := "the text"
		if c, isCall := res.(*ssa.Call); isCall && len(c.Call.Args) == 1 {
			if cal := c.Call.StaticCallee(); cal != nil && cal.Pkg != nil && ((cal.Pkg.Pkg.Path() == htmlTplPath && cal.Name() == "HTMLEscapeString") || (cal.Pkg.Pkg.Path() == "html" && cal.Name() == "EscapeString")) {
				arg := p.resolve(c.Call.Args[0])
				if arg == sParam {
					good = true
				}
				if ex, isEx := arg.(*ssa.Extract); isEx && ex.Index == 0 {
					if bc, isBC := ex.Tuple.(*ssa.Call); isBC && bc.Call.IsInvoke() && (bc.Call.Method.Name() == "Block" || bc.Call.Method.Name() == "BlockWith") {
						good, what = true, "the block's rendering"
					}
				}
			}
		}
		con := "success return: standard escaper applied to " + what
		if good {
			r.Ok(rule, f.Name(), con, w.Pos(p.ret.Pos()), "the standard escaper applied last, nothing appended")
		} else {
			r.Bad(rule, f.Name(), "success return that is not the standard escaper's output", w.Pos(p.ret.Pos()), "htmlEscape's result must be exactly template.HTMLEscapeString of its input (or of the block's rendering)")
		}
	}
	if n == 0 {
		r.Bad(rule, f.Name(), "no success return", w.Pos(f.Decl.Pos()), "htmlEscape never succeeds")
	}
}

func rawRule(r *Run, rule string) {
	w := r.W
	var rawFn *types.Func
	for fn, key := range w.helperRoots() {
		if key == "raw" {
			rawFn = fn
		}
	}
	f := w.FuncOf(rawFn)
	if f == nil {
		r.Lost(rule, "function registered as raw")
		return
	}
	info := f.Pkg.TypesInfo
	p := f.Obj.Type().(*types.Signature).Params().At(0)
	ok := false
	if len(f.Decl.Body.List) == 1 {
		if ret, isRet := f.Decl.Body.List[0].(*ast.ReturnStmt); isRet && len(ret.Results) == 1 {
			if c, isC := unparen(ret.Results[0]).(*ast.CallExpr); isC {
				if t, isConv := isConversion(info, c); isConv && namedIs(t, htmlTplPath, "HTML") && objOf(info, c.Args[0]) == p {
					ok = true
				}
			}
		}
	}
	if ok {
		r.Ok(rule, f.Name(), "return template.HTML(s)", w.Pos(f.Decl.Pos()), "identity conversion")
	} else {
		r.Bad(rule, f.Name(), "raw is not the identity conversion", w.Pos(f.Decl.Pos()), "raw(s) must reach the output byte-identical: it must be exactly template.HTML(s)")
	}
}

func jsonRule(r *Run, rule string) {
	w := r.W
	var fn *types.Func
	for g, key := range w.helperRoots() {
		if key == "toJSON" {
			fn = g
		}
	}
	f := w.FuncOf(fn)
	if f == nil {
		r.Lost(rule, "function registered as toJSON")
		return
	}
	info := f.Pkg.TypesInfo
	vParam := f.Obj.Type().(*types.Signature).Params().At(0)
	var bVar types.Object
	inspectBody(f.Decl.Body, false, func(n ast.Node) bool {
		if as, ok := n.(*ast.AssignStmt); ok && len(as.Rhs) == 1 && len(as.Lhs) == 2 {
			if c, ok := as.Rhs[0].(*ast.CallExpr); ok && funcIs(calleeOf(info, c), "encoding/json", "Marshal") && len(c.Args) == 1 && objOf(info, c.Args[0]) == vParam {
				bVar = objOf(info, as.Lhs[0])
			}
		}
		return true
	})
	okAll, n := bVar != nil, 0
	for _, ret := range returnsIn(f.Decl.Body) {
		if len(ret.Results) != 2 || !isNilIdent(info, ret.Results[1]) {
			continue
		}
		n++
		c, ok := unparen(ret.Results[0]).(*ast.CallExpr)
		if !ok {
			okAll = false
			continue
		}
		t, isConv := isConversion(info, c)
		if !isConv || !namedIs(t, htmlTplPath, "HTML") || objOf(info, c.Args[0]) != bVar {
			okAll = false
		}
	}
	// b is not modified
	inspectBody(f.Decl.Body, false, func(nd ast.Node) bool {
		if as, ok := nd.(*ast.AssignStmt); ok && bVar != nil {
			for i, l := range as.Lhs {
				if objOf(info, l) == bVar {
					if c, ok := as.Rhs[0].(*ast.CallExpr); !(ok && i == 0 && funcIs(calleeOf(info, c), "encoding/json", "Marshal")) {
						okAll = false
					}
				}
				if ix, ok := l.(*ast.IndexExpr); ok && objOf(info, ix.X) == bVar {
					okAll = false
				}
			}
		}
		return true
	})
	if okAll && n > 0 {
		r.Ok(rule, f.Name(), "every success return is template.HTML(json.Marshal(v))", w.Pos(f.Decl.Pos()), fmt.Sprintf("%d success return(s)", n))
	} else {
		r.Bad(rule, f.Name(), "a success return that is not the json.Marshal output", w.Pos(f.Decl.Pos()),
			"toJSON must emit exactly what encoding/json produces (valid JSON with < > & escaped); a shortcut for some value kinds bypasses both guarantees")
	}
	// no SetEscapeHTML anywhere
	found := false
	for _, g := range w.AllFuncs() {
		for _, c := range callsIn(g.Decl.Body, false) {
			if cal := calleeOf(g.Pkg.TypesInfo, c); cal != nil && cal.Name() == "SetEscapeHTML" {
				found = true
				r.Bad(rule, g.Name(), "SetEscapeHTML "+short(w.Fset, c), w.Pos(c.Pos()), "HTML escaping of JSON must stay on")
			}
		}
	}
	if !found {
		r.Ok(rule, "-", "no SetEscapeHTML call in the module", "-", "default HTML-safe JSON")
	}
}

func truncateRule(r *Run) {
	w := r.W
	var fn *types.Func
	for g, key := range w.helperRoots() {
		if key == "truncate" {
			fn = g
		}
	}
	f := w.FuncOf(fn)
	if f == nil {
		r.Lost("R4", "function registered as truncate")
		return
	}
	info := f.Pkg.TypesInfo
	sig := f.Obj.Type().(*types.Signature)
	var optsP *types.Var
	for i := 0; i < sig.Params().Len(); i++ {
		if _, ok := sig.Params().At(i).Type().Underlying().(*types.Map); ok {
			optsP = sig.Params().At(i)
		}
	}
	truncateBoundsSSA(r, f)
	// R6, on the SSA form of the helper and of the unexported functions of its package it calls
	_ = info
	_ = optsP
	fnS := w.SSAFunc(f)
	if fnS == nil {
		r.Lost("R6", "SSA form of truncate")
		return
	}
	var optsV ssa.Value
	for _, prm := range fnS.Params {
		if _, ok := prm.Type().Underlying().(*types.Map); ok {
			optsV = prm
		}
	}
	isOpts := func(v ssa.Value) bool {
		for i := 0; i < 6 && v != nil; i++ {
			v = crossNorm(v)
			if ct, ok := v.(*ssa.ChangeType); ok {
				v = ct.X
				continue
			}
			break
		}
		return v != nil && v == optsV
	}
	fns := []*ssa.Function{fnS}
	seen := map[*ssa.Function]bool{fnS: true}
	nOpt := 0
	for i := 0; i < len(fns) && i < 16; i++ {
		for _, b := range fns[i].Blocks {
			for _, ins := range b.Instrs {
				switch x := ins.(type) {
				case *ssa.Call:
					if g := x.Call.StaticCallee(); g != nil && pkgOf(g) == fnS.Pkg && len(g.Blocks) > 0 && !seen[g] && fnObject(g) != nil && !fnObject(g).Exported() {
						seen[g] = true
						fns = append(fns, g)
					}
				case *ssa.Lookup:
					if !isOpts(x.X) {
						continue
					}
					for _, ref := range *x.Referrers() {
						ta, ok := ref.(*ssa.TypeAssert)
						if !ok {
							continue
						}
						nOpt++
						con := "option " + typeStr(ta.AssertedType)
						if k, ok := x.Index.(*ssa.Const); ok && k.Value != nil {
							con = "option " + k.Value.ExactString() + " as " + typeStr(ta.AssertedType)
						} else if k, ok := crossNorm(x.Index).(*ssa.Const); ok && k.Value != nil {
							con = "option " + k.Value.ExactString() + " as " + typeStr(ta.AssertedType)
						}
						if ta.CommaOk {
							r.Ok("R6", ssaName(fns[i]), con, w.Pos(ta.Pos()), "comma-ok assertion")
						} else {
							r.Bad("R6", ssaName(fns[i]), con, w.Pos(ta.Pos()), "an option of the wrong type panics the helper")
						}
					}
				case *ssa.MapUpdate:
					if isOpts(x.Map) {
						r.Bad("R6", ssaName(fns[i]), "write to the options map", w.Pos(x.Pos()), "writing defaults into the caller's map panics for a nil map and changes the caller's data")
					}
				}
			}
		}
	}
	if nOpt == 0 {
		r.Bad("R6", f.Name(), "options are not read", w.Pos(f.Decl.Pos()), "size and trail must come from the options")
	}
}
