package main

// c19ssa.go: the iterator helpers read from their SSA form. The counter
// iterator, its constructors and the group iterator are summarised by
// enumerating their paths (pathwalk.go) and reading stores, comparisons and
// results as linear forms over the parameters / the initial field values; the
// partition loop of groupBy is recognised on the SSA value graph (induction
// variable, clamped end, ceil division). Loop forms, hoisted lengths, guard
// polarity and helper constructors do not matter.

import (
	"fmt"
	"go/constant"
	"go/token"
	"go/types"
	"sort"
	"strings"

	"golang.org/x/tools/go/ssa"
)

type lin struct {
	atom string
	c    int64
	ok   bool
}

func (l lin) String() string {
	if !l.ok {
		return "?"
	}
	if l.atom == "" {
		return fmt.Sprint(l.c)
	}
	switch {
	case l.c == 0:
		return l.atom
	case l.c > 0:
		return fmt.Sprintf("%s+%d", l.atom, l.c)
	}
	return fmt.Sprintf("%s%d", l.atom, l.c)
}

// linOf reads v as atom+c; atomOf names the atoms (parameters, initial field loads, lengths).
func linOf(p *pwPath, v ssa.Value, atomOf func(ssa.Value) string, d int) lin {
	if d > 12 || v == nil {
		return lin{}
	}
	v = p.resolve(v)
	if c, ok := p.constOf(v); ok && c.Kind() == constant.Int {
		n, exact := constant.Int64Val(c)
		return lin{"", n, exact}
	}
	if a := atomOf(v); a != "" {
		return lin{a, 0, true}
	}
	switch x := v.(type) {
	case *ssa.BinOp:
		if x.Op == token.ADD || x.Op == token.SUB {
			a, b := linOf(p, x.X, atomOf, d+1), linOf(p, x.Y, atomOf, d+1)
			if a.ok && b.ok && b.atom == "" {
				if x.Op == token.SUB {
					return lin{a.atom, a.c - b.c, true}
				}
				return lin{a.atom, a.c + b.c, true}
			}
			if a.ok && b.ok && a.atom == "" && x.Op == token.ADD {
				return lin{b.atom, a.c + b.c, true}
			}
		}
	case *ssa.Convert:
		return linOf(p, x.X, atomOf, d+1)
	case *ssa.ChangeType:
		return linOf(p, x.X, atomOf, d+1)
	}
	return lin{}
}

// ltTruth normalises a decision `a op b` with truth t to the truth of (lo < hi); ok=false when the
// comparison is not between exactly lo and hi (offset 0) or is the reversed predicate (hi < lo).
func ltTruth(op token.Token, a, b lin, t bool, lo, hi string) (bool, bool) {
	if !a.ok || !b.ok || a.c != 0 || b.c != 0 {
		return false, false
	}
	switch op {
	case token.LSS:
	case token.GEQ:
		t = !t
	case token.GTR:
		a, b = b, a
	case token.LEQ:
		a, b, t = b, a, !t
	default:
		return false, false
	}
	if a.atom == lo && b.atom == hi {
		return t, true
	}
	return false, false
}

func fieldLoadAtom(p *pwPath, v ssa.Value, recv ssa.Value, prefix string) string {
	u, ok := v.(*ssa.UnOp)
	if !ok || u.Op != token.MUL {
		return ""
	}
	fa, ok := u.X.(*ssa.FieldAddr)
	if !ok || p.resolve(fa.X) != recv {
		return ""
	}
	return fmt.Sprintf("%s%d", prefix, fa.Field)
}

// ---- counter iterator ---------------------------------------------------------

type counterSummary struct {
	ok             bool
	posIdx, endIdx int
	text           string
}

func c19CounterNext(r *Run, ic *iterCopy) counterSummary {
	w := r.W
	f := ic.rangerNext
	fn := w.SSAFunc(f)
	out := counterSummary{posIdx: -1, endIdx: -1, text: "?"}
	bad := func(why string) counterSummary {
		r.Bad("R1", f.Name(), "Next shape", w.Pos(f.Decl.Pos()),
			"the counter iterator's Next must yield pos+1 exactly while pos < end (strict comparison of the two fields, increment by one, nil afterwards): "+why+"; other forms change the interval or wrap at the extremes of int (for example comparing pos+1 <= end overflows at MaxInt and never ends)")
		return out
	}
	if fn == nil || len(fn.Params) != 1 {
		return bad("no SSA form")
	}
	recv := ssa.Value(fn.Params[0])
	// (unexported helpers of the package -- "is it exhausted?" -- are walked in line)
	paths, ok := walkPaths(fn, nil, func(caller, callee *ssa.Function) bool {
		return pkgOf(callee) == fn.Pkg && fnObject(callee) != nil && !fnObject(callee).Exported() && !funcHasLoop(callee)
	})
	if !ok || len(paths) == 0 {
		return bad("paths cannot be enumerated")
	}
	// the field that is stored is the position
	for _, p := range paths {
		for _, ev := range p.events {
			if st, ok := ev.(*ssa.Store); ok {
				if fa, ok := st.Addr.(*ssa.FieldAddr); ok && p.resolve(fa.X) == recv {
					out.posIdx = fa.Field
				}
			}
		}
	}
	if out.posIdx < 0 || out.posIdx > 1 {
		return bad("no field is advanced")
	}
	out.endIdx = 1 - out.posIdx
	pos, end := fmt.Sprintf("f%d", out.posIdx), fmt.Sprintf("f%d", out.endIdx)
	nYield, nStop := 0, 0
	for _, p := range paths {
		atom := func(v ssa.Value) string { return fieldLoadAtom(p, v, recv, "f") }
		if p.end != "return" || len(p.results) != 1 {
			return bad("a path does not return")
		}
		lt, known := false, false
		for _, d := range p.decisions {
			bo, ok := d.cond.(*ssa.BinOp)
			if !ok {
				return bad("a branch does not compare the two fields")
			}
			a, b := linOf(p, bo.X, atom, 0), linOf(p, bo.Y, atom, 0)
			if a.ok && b.ok && (a.c != 0 || b.c != 0) {
				r.Bad("R2", f.Name(), "arithmetic in the comparison", w.Pos(bo.Pos()), "+-1 on a field that may hold an extreme int, not dominated by a strict comparison")
			}
			t, ok := ltTruth(bo.Op, a, b, d.truth, pos, end)
			if !ok {
				return bad("a branch is not the strict comparison pos < end")
			}
			if known && t != lt {
				return bad("contradictory comparisons on one path")
			}
			lt, known = t, true
		}
		if !known {
			return bad("a path yields without comparing pos with end")
		}
		var stores []*ssa.Store
		for _, ev := range p.events {
			if st, ok := ev.(*ssa.Store); ok {
				stores = append(stores, st)
			}
		}
		res := p.resolve(stripIface(p.resolve(p.results[0])))
		if lt {
			if len(stores) != 1 {
				return bad("pos must be advanced exactly once when pos < end")
			}
			sv := linOf(p, stores[0].Val, atom, 0)
			rv := linOf(p, res, atom, 0)
			if !(sv.ok && sv.atom == pos && sv.c == 1) {
				return bad("pos must be advanced by exactly one")
			}
			if !(rv.ok && rv.atom == pos && rv.c == 1) {
				return bad("the yielded value must be the advanced position (pos+1)")
			}
			nYield++
		} else {
			if len(stores) != 0 || !isNilConst(res) {
				return bad("once pos >= end Next must return nil and leave the position alone")
			}
			nStop++
		}
	}
	if nYield == 0 || nStop == 0 {
		return bad("both the yielding and the finished case are needed")
	}
	out.ok = true
	out.text = "yields pos+1 while pos < end, then nil"
	r.Ok("R1", f.Name(), "Next shape", w.Pos(f.Decl.Pos()), out.text+"  => yields pos0+1 .. end, nothing when pos0 >= end, terminates after end-pos0 steps, and the increment cannot wrap because pos < end")
	r.Ok("R2", f.Name(), "pos++", w.Pos(f.Decl.Pos()), "dominated by the strict comparison pos < end")
	return out
}

// c19Constructor reads the interval a constructor sets up: (first, last) as linear forms over its parameters.
func c19Constructor(r *Run, ic *iterCopy, name string, f *FuncInfo, cs counterSummary) string {
	w := r.W
	fn := w.SSAFunc(f)
	spec := map[string][2]string{"range": {"p0", "p1"}, "between": {"p0+1", "p1-1"}, "until": {"0", "p0-1"}}
	want := spec[name]
	fail := func(con, why string) string {
		r.Bad("R1", f.Name(), con, w.Pos(f.Decl.Pos()), why)
		return name + "=?"
	}
	if fn == nil || !cs.ok {
		return fail(name+": interval", fmt.Sprintf("the interval must be %s .. %s", want[0], want[1]))
	}
	inline := func(caller, callee *ssa.Function) bool {
		return pkgOf(callee) == fn.Pkg && callee.Signature.Recv() == nil
	}
	paths, ok := walkPaths(fn, nil, inline)
	if !ok || len(paths) == 0 {
		return fail(name+": interval", "the constructor's paths cannot be enumerated")
	}
	atom := func(v ssa.Value) string {
		for i, prm := range fn.Params {
			if v == ssa.Value(prm) {
				return fmt.Sprintf("p%d", i)
			}
		}
		return ""
	}
	var first, last lin
	for i, p := range paths {
		if p.end != "return" || len(p.results) != 1 {
			return fail(name+": interval", "a path of the constructor does not return an iterator")
		}
		obj := p.resolve(stripIface(p.resolve(p.results[0])))
		al, isAlloc := obj.(*ssa.Alloc)
		if !isAlloc {
			return fail(name+": interval", "the constructor does not return a freshly built counter iterator")
		}
		get := func(idx int) lin {
			v, ok := p.fieldOfObj(al, idx)
			if !ok {
				return lin{"", 0, true} // field left at its zero value
			}
			return linOf(p, v, atom, 0)
		}
		p0, e := get(cs.posIdx), get(cs.endIdx)
		fst := lin{p0.atom, p0.c + 1, p0.ok}
		if i > 0 && (fst != first || e != last) {
			return fail(name+": interval", "the interval depends on the path taken through the constructor; it must be "+want[0]+" .. "+want[1]+" always")
		}
		first, last = fst, e
		// R2: +-c on a caller-controlled int
		for _, l := range []lin{p0, e} {
			if l.ok && l.atom != "" && l.c != 0 {
				r.Bad("R2", f.Name(), "wrapping "+l.String()+" ("+name+")", w.Pos(f.Decl.Pos()),
					"'"+l.String()+"' on an unconstrained int parameter wraps at the extreme of int: the interval silently becomes empty or (until) practically endless")
			}
		}
	}
	con := fmt.Sprintf("%s: first=%s last=%s", name, first, last)
	if first.ok && last.ok && first.String() == want[0] && last.String() == want[1] {
		r.Ok("R1", f.Name(), con, w.Pos(f.Decl.Pos()), "matches the specified interval (parameters named p0, p1 by position)")
	} else {
		r.Bad("R1", f.Name(), con, w.Pos(f.Decl.Pos()), fmt.Sprintf("the interval must be %s .. %s", want[0], want[1]))
	}
	return fmt.Sprintf("%s=%s..%s", name, first, last)
}

// ---- group iterator -----------------------------------------------------------

func c19GroupNext(r *Run, ic *iterCopy) string {
	w := r.W
	g := ic.groupNext
	fn := w.SSAFunc(g)
	bad := func(why string) string {
		r.Bad("R4", g.Name(), "Next of the group iterator", w.Pos(g.Decl.Pos()), "the groups must be handed out once each, in order, then nil: "+why)
		return "groupNext=?"
	}
	if fn == nil || len(fn.Params) != 1 {
		return bad("no SSA form")
	}
	recv := ssa.Value(fn.Params[0])
	st, _ := ic.groupT.Underlying().(*types.Struct)
	posIdx, grpIdx := -1, -1
	for i := 0; st != nil && i < st.NumFields(); i++ {
		if isBasicKind(st.Field(i).Type(), types.Int) {
			posIdx = i
		} else if _, ok := st.Field(i).Type().(*types.Slice); ok {
			grpIdx = i
		}
	}
	if posIdx < 0 || grpIdx < 0 {
		return bad("fields of the group iterator")
	}
	paths, ok := walkPaths(fn, nil, nil)
	if !ok || len(paths) == 0 {
		return bad("paths cannot be enumerated")
	}
	pos := fmt.Sprintf("f%d", posIdx)
	nYield, nStop := 0, 0
	for _, p := range paths {
		atom := func(v ssa.Value) string {
			if a := fieldLoadAtom(p, v, recv, "f"); a != "" {
				return a
			}
			if c, ok := v.(*ssa.Call); ok {
				if b, ok := c.Call.Value.(*ssa.Builtin); ok && b.Name() == "len" && len(c.Call.Args) == 1 {
					if fieldLoadAtom(p, p.resolve(c.Call.Args[0]), recv, "f") == fmt.Sprintf("f%d", grpIdx) {
						return "len"
					}
				}
			}
			return ""
		}
		if p.end != "return" || len(p.results) != 1 {
			return bad("a path does not return")
		}
		lt, known := false, false
		for _, d := range p.decisions {
			bo, ok := d.cond.(*ssa.BinOp)
			if !ok {
				return bad("a branch is not the comparison pos < len(groups)")
			}
			la, lb := linOf(p, bo.X, atom, 0), linOf(p, bo.Y, atom, 0)
			// a test of the number of groups against a constant: "there are none" is the finished case (the position
			// starts at zero and only grows); "there are some" says nothing about the position
			if la.ok && lb.ok && ((la.atom == "len" && la.c == 0 && lb.atom == "") || (lb.atom == "len" && lb.c == 0 && la.atom == "")) {
				op, k := bo.Op, lb.c
				if la.atom == "" {
					// k op len  ->  len op' k
					flip := map[token.Token]token.Token{token.LSS: token.GTR, token.GTR: token.LSS, token.LEQ: token.GEQ, token.GEQ: token.LEQ, token.EQL: token.EQL, token.NEQ: token.NEQ}
					op, k = flip[op], la.c
				}
				if !d.truth {
					neg := map[token.Token]token.Token{token.LSS: token.GEQ, token.GEQ: token.LSS, token.LEQ: token.GTR, token.GTR: token.LEQ, token.EQL: token.NEQ, token.NEQ: token.EQL}
					op = neg[op]
				}
				empty := (op == token.EQL && k == 0) || (op == token.LEQ && k <= 0) || (op == token.LSS && k <= 1)
				some := (op == token.NEQ && k == 0) || (op == token.GTR && k >= 0) || (op == token.GEQ && k >= 1)
				switch {
				case empty:
					lt, known = false, true
					continue
				case some:
					continue
				}
				return bad("a branch is not the comparison pos < len(groups)")
			}
			// a test of the position against a constant: "it is negative" can never hold (the position starts at zero
			// and only grows) and is a finished case if written; "it is not negative" says nothing
			if la.ok && lb.ok && ((la.atom == pos && la.c == 0 && lb.atom == "") || (lb.atom == pos && lb.c == 0 && la.atom == "")) {
				op, k := bo.Op, lb.c
				if la.atom == "" {
					flip := map[token.Token]token.Token{token.LSS: token.GTR, token.GTR: token.LSS, token.LEQ: token.GEQ, token.GEQ: token.LEQ, token.EQL: token.EQL, token.NEQ: token.NEQ}
					op, k = flip[op], la.c
				}
				if !d.truth {
					neg := map[token.Token]token.Token{token.LSS: token.GEQ, token.GEQ: token.LSS, token.LEQ: token.GTR, token.GTR: token.LEQ, token.EQL: token.NEQ, token.NEQ: token.EQL}
					op = neg[op]
				}
				negative := (op == token.LSS && k <= 0) || (op == token.LEQ && k <= -1)
				nonNegative := (op == token.GEQ && k <= 0) || (op == token.GTR && k <= -1)
				switch {
				case negative:
					lt, known = false, true
					continue
				case nonNegative:
					continue
				}
				return bad("a branch is not the comparison pos < len(groups)")
			}
			t, ok := ltTruth(bo.Op, la, lb, d.truth, pos, "len")
			if !ok {
				return bad("a branch is not the comparison pos < len(groups)")
			}
			if known && !lt && t {
				return bad("contradictory comparisons on one path")
			}
			lt, known = t, true
		}
		if !known {
			return bad("a path yields without comparing pos with the number of groups")
		}
		var stores []*ssa.Store
		for _, ev := range p.events {
			if s, ok := ev.(*ssa.Store); ok {
				stores = append(stores, s)
			}
		}
		res := p.resolve(stripIface(p.resolve(p.results[0])))
		if !lt {
			if len(stores) != 0 || !isNilConst(res) {
				return bad("after the last group Next must return nil and leave the position alone")
			}
			nStop++
			continue
		}
		if len(stores) != 1 {
			return bad("pos must be advanced exactly once per group")
		}
		if fa, ok := stores[0].Addr.(*ssa.FieldAddr); !ok || fa.Field != posIdx || p.resolve(fa.X) != recv {
			return bad("only the position may be written")
		}
		if sv := linOf(p, stores[0].Val, atom, 0); !(sv.ok && sv.atom == pos && sv.c == 1) {
			return bad("pos must be advanced by exactly one")
		}
		// result: groups[pos].Interface()
		call, ok := res.(*ssa.Call)
		if !ok || call.Call.StaticCallee() == nil || call.Call.StaticCallee().Name() != "Interface" || len(call.Call.Args) != 1 {
			return bad("the yielded value must be the group's Interface()")
		}
		ld, ok := p.resolve(call.Call.Args[0]).(*ssa.UnOp)
		if !ok || ld.Op != token.MUL {
			return bad("the yielded value must be groups[pos]")
		}
		ia, ok := ld.X.(*ssa.IndexAddr)
		if !ok || fieldLoadAtom(p, p.resolve(ia.X), recv, "f") != fmt.Sprintf("f%d", grpIdx) {
			return bad("the yielded value must be an element of the groups")
		}
		if iv := linOf(p, ia.Index, atom, 0); !(iv.ok && iv.atom == pos && iv.c == 0) {
			return bad("the yielded group must be the one at the current position")
		}
		nYield++
	}
	if nYield == 0 || nStop == 0 {
		return bad("both the yielding and the finished case are needed")
	}
	r.Ok("R4", g.Name(), "groups handed out in order, then nil", w.Pos(g.Decl.Pos()), "yields groups[pos] and advances pos by one while pos < len(groups); nil afterwards")
	return "groupNext=in order, then nil"
}

// ---- groupBy partition ----------------------------------------------------------

// sameLenFamily collects the reflect.Values that have the same length as u:
// u itself, the alternatives of a phi, and an addressable copy
// reflect.New(x.Type()).Elem() of a member x.
func sameLenFamily(u ssa.Value) map[ssa.Value]bool {
	fam := map[ssa.Value]bool{}
	var add func(v ssa.Value, d int)
	add = func(v ssa.Value, d int) {
		if v == nil || fam[v] || d > 8 {
			return
		}
		fam[v] = true
		switch x := v.(type) {
		case *ssa.Phi:
			for _, e := range x.Edges {
				add(e, d+1)
			}
		case *ssa.Parameter:
			// the argument at the function's only call site
			if a := singleSiteArg(x); a != nil {
				add(a, d+1)
			}
		case *ssa.UnOp:
			// a captured variable: the value written to it
			if sv := cellValue(x); sv != nil {
				add(sv, d+1)
			}
		case *ssa.Call:
			// a helper of the module that returns its operand or an addressable copy of it: what it may return
			if g := x.Call.StaticCallee(); g != nil && inModule(g) && len(g.Blocks) > 0 && g.Signature.Results().Len() == 1 {
				for _, b := range g.Blocks {
					if ret, ok := b.Instrs[len(b.Instrs)-1].(*ssa.Return); ok && len(ret.Results) == 1 {
						add(ret.Results[0], d+1)
					}
				}
			}
			// Elem(New(Type(y)))
			if recv, _, ok := reflectValueCall(x, "Elem"); ok {
				if args, ok := reflectFunc(recv, "New"); ok && len(args) == 1 {
					if y, _, ok := reflectValueCall(args[0], "Type"); ok {
						add(y, d+1)
					}
				}
			}
		}
	}
	add(u, 0)
	return fam
}

// singleSiteArg: the argument bound to parameter p at the only static call site of its function
// (nil when there are several sites, or none, or the function's value is used otherwise).
func singleSiteArg(p *ssa.Parameter) ssa.Value {
	fn := p.Parent()
	if fn == nil || pkgOf(fn) == nil {
		return nil
	}
	idx := -1
	for i, q := range fn.Params {
		if q == p {
			idx = i
		}
	}
	if idx < 0 {
		return nil
	}
	if fn.Parent() != nil {
		// a function literal: the one place where its value is called - directly, or as the callback
		// parameter of the one function it is handed to
		if c := closureCallSite(fn); c != nil && idx < len(c.Call.Args) {
			return c.Call.Args[idx]
		}
		return nil
	}
	var site *ssa.Call
	n := 0
	for _, g := range functionsOf(pkgOf(fn)) {
		for _, b := range g.Blocks {
			for _, ins := range b.Instrs {
				var buf [8]*ssa.Value
				for _, op := range ins.Operands(buf[:0]) {
					if op == nil || *op != ssa.Value(fn) {
						continue
					}
					n++
					if c, ok := ins.(*ssa.Call); ok && c.Call.StaticCallee() == fn {
						site = c
					} else {
						return nil
					}
				}
			}
		}
	}
	if n != 1 || site == nil || idx >= len(site.Call.Args) {
		return nil
	}
	return site.Call.Args[idx]
}

// closureCallSite: the single call that runs the function literal fn: the literal is made in one
// place and its value is used once - called there, or passed as an argument to a function of the
// module whose parameter is used only to be called, in one place.
func closureCallSite(fn *ssa.Function) *ssa.Call {
	mc := closureSite(fn)
	var val ssa.Value
	if mc != nil {
		val = mc
	} else {
		// a literal that captures nothing is the function itself
		n := 0
		for _, b := range fn.Parent().Blocks {
			for _, ins := range b.Instrs {
				var buf [8]*ssa.Value
				for _, op := range ins.Operands(buf[:0]) {
					if op != nil && *op == ssa.Value(fn) {
						n++
					}
				}
			}
		}
		if n != 1 {
			return nil
		}
		val = fn
	}
	var uses []ssa.Instruction
	if mc != nil {
		if mc.Referrers() == nil {
			return nil
		}
		for _, r := range *mc.Referrers() {
			if _, isDbg := r.(*ssa.DebugRef); !isDbg {
				uses = append(uses, r)
			}
		}
	} else {
		for _, b := range fn.Parent().Blocks {
			for _, ins := range b.Instrs {
				var buf [8]*ssa.Value
				for _, op := range ins.Operands(buf[:0]) {
					if op != nil && *op == val {
						uses = append(uses, ins)
					}
				}
			}
		}
	}
	if len(uses) != 1 {
		return nil
	}
	c, ok := uses[0].(*ssa.Call)
	if !ok {
		return nil
	}
	if c.Call.Value == val && !c.Call.IsInvoke() {
		return c // called where it is made
	}
	h := c.Call.StaticCallee()
	if h == nil || !inModule(h) || len(h.Blocks) == 0 || len(h.Params) != len(c.Call.Args) {
		return nil
	}
	for i, a := range c.Call.Args {
		if a != val {
			continue
		}
		prm := h.Params[i]
		if prm.Referrers() == nil {
			return nil
		}
		var call *ssa.Call
		for _, r := range *prm.Referrers() {
			switch x := r.(type) {
			case *ssa.DebugRef:
			case *ssa.Call:
				if x.Call.Value != ssa.Value(prm) || x.Call.IsInvoke() || call != nil {
					return nil
				}
				call = x
			default:
				return nil
			}
		}
		return call
	}
	return nil
}

// blockInFunction: the block of fn in which ins runs: its own block, or the block of the one call
// (static, or of the callback) through which the function around ins is run from fn.
func blockInFunction(ins ssa.Instruction, fn *ssa.Function) *ssa.BasicBlock {
	for i := 0; i < 6 && ins != nil; i++ {
		f := ins.Parent()
		if f == fn {
			return ins.Block()
		}
		var site *ssa.Call
		if f.Parent() != nil {
			site = closureCallSite(f)
		} else if sites := staticSitesInPkg(f); len(sites) == 1 {
			site = sites[0]
		}
		if site == nil {
			return nil
		}
		ins = site
	}
	return nil
}

// staticSitesInPkg: the static calls of f in its own package.
func staticSitesInPkg(f *ssa.Function) []*ssa.Call {
	var out []*ssa.Call
	if pkgOf(f) == nil {
		return nil
	}
	for _, g := range functionsOf(pkgOf(f)) {
		for _, b := range g.Blocks {
			for _, ins := range b.Instrs {
				if c, ok := ins.(*ssa.Call); ok && c.Call.StaticCallee() == f {
					out = append(out, c)
				}
			}
		}
	}
	return out
}

// crossNorm follows a value across the boundaries of single-use helpers: a parameter of a function
// with one call site is the argument of that call; the call of a module function with a single
// return statement is what that statement returns; a write-once captured variable is its value.
func crossNorm(v ssa.Value) ssa.Value { return crossNormIn(v, nil) }

// crossNormIn: as crossNorm, but the parameters of root are not followed to root's own callers.
func crossNormIn(v ssa.Value, root *ssa.Function) ssa.Value {
	for i := 0; i < 8 && v != nil; i++ {
		switch x := v.(type) {
		case *ssa.Parameter:
			if root != nil && x.Parent() == root {
				return v
			}
			if a := singleSiteArg(x); a != nil {
				v = a
				continue
			}
		case *ssa.Call:
			g := x.Call.StaticCallee()
			if g != nil && inModule(g) && len(g.Blocks) > 0 && g.Signature.Results().Len() == 1 {
				var rets []*ssa.Return
				for _, b := range g.Blocks {
					if ret, ok := b.Instrs[len(b.Instrs)-1].(*ssa.Return); ok {
						rets = append(rets, ret)
					}
				}
				if len(rets) == 1 && len(rets[0].Results) == 1 {
					v = rets[0].Results[0]
					continue
				}
			}
		case *ssa.UnOp:
			if sv := cellValue(x); sv != nil {
				v = sv
				continue
			}
		}
		break
	}
	return v
}

// successResult: x is result #i of a call of a module function that also returns an error: what the
// function returns at that position on its one return that reports no error (nil otherwise).
func successResult(x *ssa.Extract) ssa.Value {
	call, ok := x.Tuple.(*ssa.Call)
	if !ok {
		return nil
	}
	g := call.Call.StaticCallee()
	if g == nil || !inModule(g) || len(g.Blocks) == 0 {
		return nil
	}
	var found ssa.Value
	n := 0
	for _, b := range g.Blocks {
		ret, ok := b.Instrs[len(b.Instrs)-1].(*ssa.Return)
		if !ok || x.Index >= len(ret.Results) {
			continue
		}
		failing := false
		for i, rv := range ret.Results {
			if i != x.Index && isErrorType(rv.Type()) && !isNilConst(rv) {
				failing = true
			}
		}
		if failing {
			continue
		}
		n++
		found = ret.Results[x.Index]
	}
	if n != 1 {
		return nil
	}
	return found
}

// crossReaches: following v across single-use helpers (as crossNorm does, one step at a time) meets target.
func crossReaches(v, target ssa.Value) bool {
	for i := 0; i < 8 && v != nil; i++ {
		if v == target {
			return true
		}
		var next ssa.Value
		switch x := v.(type) {
		case *ssa.Parameter:
			next = singleSiteArg(x)
		case *ssa.UnOp:
			next = cellValue(x)
		case *ssa.Extract:
			next = successResult(x)
		}
		if next == nil {
			return false
		}
		v = next
	}
	return false
}

func isLenOf(v ssa.Value, fam map[ssa.Value]bool) bool {
	v = crossNorm(v)
	recv, _, ok := reflectValueCall(v, "Len")
	return ok && (fam[recv] || fam[throughCell(recv)])
}

func c19Partition(r *Run, ic *iterCopy) []string {
	w := r.W
	f := ic.groupByF
	fn := w.SSAFunc(f)
	name := f.Name()
	pos := w.Pos(f.Decl.Pos())
	var feats []string
	check := func(k string, ok bool, why string) {
		feats = append(feats, fmt.Sprintf("%s=%v", k, ok))
		if ok {
			r.Ok("R4", name, k, pos, why)
		} else {
			r.Bad("R4", name, "partition step missing or altered: "+k, pos,
				"the groups must be consecutive sub-slices [pos, min(pos+g, Len())) with g = ceil(Len()/size), stepping pos += g while pos < Len(); this step does not have that form")
		}
	}
	if fn == nil || len(fn.Params) != 2 {
		r.Lost("R4", "SSA form of groupBy")
		return feats
	}
	size := ssa.Value(fn.Params[0])
	// ---- guards, by paths: size <= 0 and non-sequences are errors before anything is computed
	paths, complete := walkPaths(fn, nil, func(caller, callee *ssa.Function) bool {
		return pkgOf(callee) == fn.Pkg && fnObject(callee) != nil && !fnObject(callee).Exported() && !funcHasLoop(callee)
	})
	okSize, okKind := complete, complete
	nSizeErr, nKindErr := 0, 0
	for _, p := range paths {
		sizePos := false    // size > 0 established
		seqKind := false    // Kind in {Array, Slice} established
		notSeq := [2]bool{} // Kind != Array, Kind != Slice established
		firstUse := len(p.decisions) + 1
		for i, ev := range p.events {
			switch x := ev.(type) {
			case *ssa.BinOp:
				if p.evDecided[i] < firstUse && p.resolve(x.Y) == size {
					firstUse = p.evDecided[i]
				}
			}
		}
		firstSeqUse := len(p.decisions) + 1
		for i, ev := range p.events {
			if c, ok := ev.(*ssa.Call); ok {
				if _, _, isLen := reflectValueCall(c, "Len"); isLen && p.evDecided[i] < firstSeqUse {
					firstSeqUse = p.evDecided[i]
				}
				if _, _, isSl := reflectValueCall(c, "Slice"); isSl && p.evDecided[i] < firstSeqUse {
					firstSeqUse = p.evDecided[i]
				}
			}
		}
		sizeAt, kindAt := -1, -1
		sizeNeg := false
		for i, d := range p.decisions {
			// a set of kinds kept as a constant table: table[Kind(v)] / slices.Contains(table, Kind(v))
			if set, ok := kindSetDecision(p, d.cond); ok {
				const seq = uint64(1)<<uint(kArray) | uint64(1)<<uint(kSlice)
				in := set
				if !d.truth {
					in = ^set
				}
				if in&^seq == 0 && !seqKind {
					seqKind, kindAt = true, i
				}
				if in&seq == 0 {
					notSeq[0], notSeq[1] = true, true
				}
				continue
			}
			bo, ok := d.cond.(*ssa.BinOp)
			if !ok {
				continue
			}
			x, y := p.resolve(bo.X), p.resolve(bo.Y)
			if x == size {
				if c, ok := p.constOf(y); ok && c.Kind() == constant.Int {
					n, _ := constant.Int64Val(c)
					// size op n
					var isPos, isNonPos bool
					switch bo.Op {
					case token.LEQ:
						isNonPos, isPos = d.truth && n <= 0, !d.truth && n >= 0
					case token.LSS:
						isNonPos, isPos = d.truth && n <= 1, !d.truth && n >= 1
					case token.GTR:
						isPos, isNonPos = d.truth && n >= 0, !d.truth && n <= 0
					case token.GEQ:
						isPos, isNonPos = d.truth && n >= 1, !d.truth && n <= 1
					}
					if isPos && !sizePos {
						sizePos, sizeAt = true, i
					}
					if isNonPos {
						sizeNeg = true
					}
				}
			}
			if _, _, isKind := reflectValueCall(x, "Kind"); isKind {
				if k, ok := constKind(y); ok && (bo.Op == token.EQL || bo.Op == token.NEQ) {
					eq := d.truth == (bo.Op == token.EQL)
					if eq && (k == kArray || k == kSlice) && !seqKind {
						seqKind, kindAt = true, i
					}
					if !eq && k == kArray {
						notSeq[0] = true
					}
					if !eq && k == kSlice {
						notSeq[1] = true
					}
				}
			}
		}
		isErr := p.end == "return" && len(p.results) == 2 && !isNilErrorResult(p.results[1])
		if sizeNeg {
			if isErr && firstUse > len(p.decisions) && firstSeqUse > len(p.decisions) {
				nSizeErr++
			} else {
				okSize = false
			}
		}
		if firstUse <= len(p.decisions) && !(sizePos && sizeAt < firstUse) {
			okSize = false // divides by size before size > 0 is known
		}
		if notSeq[0] && notSeq[1] {
			if isErr {
				nKindErr++
			} else {
				okKind = false
			}
		}
		if firstSeqUse <= len(p.decisions) && !(seqKind && kindAt < firstSeqUse) {
			okKind = false
		}
	}
	if nSizeErr == 0 {
		okSize = false
	}
	if nKindErr == 0 {
		okKind = false
	}
	feats = append(feats, fmt.Sprintf("groupBy.sizeGuard=%v", okSize))
	if okSize {
		r.Ok("R4", name, "size <= 0 is an error", pos, "decided before any division by size")
	} else {
		r.Bad("R4", name, "size <= 0 guard", pos, "a non-positive group count must be rejected before any division")
	}
	if okKind {
		r.Ok("R4", name, "non-sequence is an error", pos, "Len and Slice are reached only for arrays and slices; every other kind returns an error")
	} else {
		r.Bad("R4", name, "non-sequence", pos, "a value that is neither array nor slice must be an error (and Len/Slice must not be reached for it)")
	}
	feats = append(feats, fmt.Sprintf("groupBy.kindGuard=%v", okKind))
	// ---- the partition loop on the value graph
	var slices []*ssa.Call
	reachFns := []*ssa.Function{fn}
	seenFn := map[*ssa.Function]bool{fn: true}
	for i := 0; i < len(reachFns) && i < 16; i++ {
		for _, b := range reachFns[i].Blocks {
			for _, ins := range b.Instrs {
				c, ok := ins.(*ssa.Call)
				if !ok {
					continue
				}
				if _, args, ok := reflectValueCall(c, "Slice"); ok && len(args) == 2 {
					slices = append(slices, c)
				}
				if g := c.Call.StaticCallee(); g != nil && pkgOf(g) == fn.Pkg && len(g.Blocks) > 0 && !seenFn[g] && fnObject(g) != nil && !fnObject(g).Exported() {
					seenFn[g] = true
					reachFns = append(reachFns, g)
				}
			}
		}
		// function literals made here (a callback that collects the groups)
		for _, a := range reachFns[i].AnonFuncs {
			if !seenFn[a] {
				seenFn[a] = true
				reachFns = append(reachFns, a)
			}
		}
	}
	if len(slices) != 1 {
		check("append u.Slice(pos,e)", false, "")
		return feats
	}
	sl := slices[0]
	u, args, _ := reflectValueCall(sl, "Slice")
	fam := sameLenFamily(u)
	nv := func(v ssa.Value) ssa.Value { return crossNormIn(v, fn) }
	lo, hi := nv(args[0]), nv(args[1])
	// the bounds may come out of a list of spans that a helper computed first: [from, to) pairs appended
	// one per iteration of the partition loop, then visited in order by the loop that cuts the groups
	var producerAppend *ssa.BasicBlock
	if plo, phi, ab, isList := spanListElement(args[0], args[1]); isList {
		lo, hi, producerAppend = nv(plo), nv(phi), ab
	}
	isLen := func(v ssa.Value) bool { return isLenOf(v, fam) }
	// lo: induction variable phi(0, lo + g)
	var g ssa.Value
	loPhi, isPhi := lo.(*ssa.Phi)
	start0, step := false, false
	if isPhi {
		for _, e := range loPhi.Edges {
			if c, ok := e.(*ssa.Const); ok && c.Value != nil && constant.Sign(c.Value) == 0 {
				start0 = true
				continue
			}
			if bo, ok := e.(*ssa.BinOp); ok && bo.Op == token.ADD && bo.X == ssa.Value(loPhi) {
				g, step = nv(bo.Y), true
			} else if ok && bo.Op == token.ADD && bo.Y == ssa.Value(loPhi) {
				g, step = nv(bo.X), true
			} else if nv(e) == hi {
				// pos = e: the next group starts at the (clamped) end of this one - literally "where the previous
				// ended"; the group size is read from the unclamped end pos + g
				if hp, isHP := hi.(*ssa.Phi); isHP {
					for _, x := range hp.Edges {
						if b2, isB := x.(*ssa.BinOp); isB && b2.Op == token.ADD && nv(b2.X) == lo {
							g, step = nv(b2.Y), true
						} else if isB && b2.Op == token.ADD && nv(b2.Y) == lo {
							g, step = nv(b2.X), true
						}
					}
				}
			}
		}
		if len(loPhi.Edges) != 2 {
			start0, step = false, false
		}
	}
	check("pos0", start0, "the first group starts at 0")
	check("pos+=g", step, "each group starts where the previous one ended")
	// hi: min(lo+g, Len)
	clamp := false
	isEnd := func(v ssa.Value) bool {
		bo, ok := v.(*ssa.BinOp)
		return ok && bo.Op == token.ADD && g != nil && ((nv(bo.X) == lo && nv(bo.Y) == g) || (nv(bo.X) == g && nv(bo.Y) == lo))
	}
	if hp, ok := hi.(*ssa.Phi); ok && len(hp.Edges) == 2 && step {
		var e, l ssa.Value
		for _, x := range hp.Edges {
			if isEnd(x) {
				e = x
			} else if isLen(x) {
				l = x
			}
		}
		if e != nil && l != nil {
			// the phi's block must be controlled by e > Len (true -> Len)
			for i, pr := range hp.Block().Preds {
				var test *ssa.BasicBlock
				if hp.Edges[i] == l {
					// pr is the block that assigns Len: its single predecessor tests e > Len
					if len(pr.Preds) == 1 {
						test = pr.Preds[0]
					}
					if test == nil {
						continue
					}
					if ifi, ok := test.Instrs[len(test.Instrs)-1].(*ssa.If); ok {
						if bo, ok := ifi.Cond.(*ssa.BinOp); ok {
							gt := (bo.Op == token.GTR && bo.X == e && isLen(bo.Y)) || (bo.Op == token.LSS && isLen(bo.X) && bo.Y == e)
							ge := (bo.Op == token.GEQ && bo.X == e && isLen(bo.Y)) || (bo.Op == token.LEQ && isLen(bo.X) && bo.Y == e)
							if (gt || ge) && test.Succs[0] == pr {
								clamp = true
							}
						}
					}
				}
			}
		}
	} else if c, ok := hi.(*ssa.Call); ok && step {
		if b, ok := c.Call.Value.(*ssa.Builtin); ok && b.Name() == "min" && len(c.Call.Args) == 2 {
			a0, a1 := c.Call.Args[0], c.Call.Args[1]
			if (isEnd(a0) && isLen(a1)) || (isEnd(a1) && isLen(a0)) {
				clamp = true
			}
		}
	}
	check("e=pos+g", clamp || (step && isEnd(hi)), "the group ends one group size further")
	check("clamp e to Len()", clamp, "the end is clamped to the length of the same sequence")
	// loop condition: lo < Len
	whileOK := false
	if isPhi {
		hb := loPhi.Block()
		if ifi, ok := hb.Instrs[len(hb.Instrs)-1].(*ssa.If); ok {
			if bo, ok := ifi.Cond.(*ssa.BinOp); ok {
				// (the block in the loop's own function from which the group is cut: the Slice itself, or
				// the call that runs the helper / callback it sits in)
				cutBlock := blockInFunction(sl, hb.Parent())
				if cutBlock == nil && producerAppend != nil && producerAppend.Parent() == hb.Parent() {
					cutBlock = producerAppend // where the span that becomes the group is recorded
				}
				lt := (bo.Op == token.LSS && nv(bo.X) == lo && isLen(bo.Y)) || (bo.Op == token.GTR && isLen(bo.X) && nv(bo.Y) == lo)
				if lt && cutBlock != nil && blockReaches(hb.Succs[0], cutBlock, false) {
					whileOK = true
				}
				ge := (bo.Op == token.GEQ && nv(bo.X) == lo && isLen(bo.Y)) || (bo.Op == token.LEQ && isLen(bo.X) && nv(bo.Y) == lo)
				if ge && cutBlock != nil && blockReaches(hb.Succs[1], cutBlock, false) {
					whileOK = true
				}
			}
		}
	}
	check("while pos<len", whileOK, "the loop runs exactly while the start is inside the sequence")
	// g = ceil(Len/size): phi(q, q+1) under Len%size != 0, q = Len/size
	div, ceil := false, false
	if gp, ok := g.(*ssa.Phi); ok && len(gp.Edges) == 2 {
		var q, q1 ssa.Value
		for _, e := range gp.Edges {
			if bo, ok := e.(*ssa.BinOp); ok && bo.Op == token.QUO && isLen(bo.X) && nv(bo.Y) == size {
				q = e
			}
		}
		for _, e := range gp.Edges {
			if bo, ok := e.(*ssa.BinOp); ok && bo.Op == token.ADD && q != nil && bo.X == q {
				if c, ok := bo.Y.(*ssa.Const); ok && c.Value != nil && constant.Compare(c.Value, token.EQL, constant.MakeInt64(1)) {
					q1 = e
				}
			}
		}
		div = q != nil
		if q != nil && q1 != nil {
			for i, pr := range gp.Block().Preds {
				if gp.Edges[i] != q1 || len(pr.Preds) != 1 {
					continue
				}
				test := pr.Preds[0]
				if ifi, ok := test.Instrs[len(test.Instrs)-1].(*ssa.If); ok {
					if bo, ok := ifi.Cond.(*ssa.BinOp); ok && (bo.Op == token.NEQ || bo.Op == token.GTR) && test.Succs[0] == pr {
						if rem, ok := bo.X.(*ssa.BinOp); ok && rem.Op == token.REM && isLen(rem.X) && nv(rem.Y) == size {
							if c, ok := bo.Y.(*ssa.Const); ok && c.Value != nil && constant.Sign(c.Value) == 0 {
								ceil = true
							}
						}
					}
				}
			}
		}
	} else if gc, ok := g.(*ssa.Call); ok && gc.Call.StaticCallee() != nil && inModule(gc.Call.StaticCallee()) {
		// a helper with two returns: Len/size, and Len/size + 1 under Len%size != 0
		h := gc.Call.StaticCallee()
		isQuo := func(v ssa.Value) bool {
			bo, ok := v.(*ssa.BinOp)
			return ok && bo.Op == token.QUO && isLen(bo.X) && nv(bo.Y) == size
		}
		var rets []*ssa.Return
		for _, b := range h.Blocks {
			if ret, ok := b.Instrs[len(b.Instrs)-1].(*ssa.Return); ok && len(ret.Results) == 1 {
				rets = append(rets, ret)
			}
		}
		if len(rets) == 2 {
			var plain, plus *ssa.Return
			for _, ret := range rets {
				v := ret.Results[0]
				if isQuo(v) {
					plain = ret
				} else if bo, ok := v.(*ssa.BinOp); ok && bo.Op == token.ADD && isQuo(bo.X) {
					if c, ok := bo.Y.(*ssa.Const); ok && c.Value != nil && constant.Compare(c.Value, token.EQL, constant.MakeInt64(1)) {
						plus = ret
					}
				}
			}
			div = plain != nil
			if plain != nil && plus != nil && len(plus.Block().Preds) == 1 {
				test := plus.Block().Preds[0]
				if ifi, ok := test.Instrs[len(test.Instrs)-1].(*ssa.If); ok && test.Succs[0] == plus.Block() {
					if bo, ok := ifi.Cond.(*ssa.BinOp); ok && (bo.Op == token.NEQ || bo.Op == token.GTR) {
						if rem, ok := bo.X.(*ssa.BinOp); ok && rem.Op == token.REM && isLen(rem.X) && nv(rem.Y) == size {
							if c, ok := bo.Y.(*ssa.Const); ok && c.Value != nil && constant.Sign(c.Value) == 0 {
								ceil = true
							}
						}
					}
				}
			}
		}
	}
	// ((Len + size - 1) / size is NOT accepted as the rounded-up quotient: the sum of two caller-controlled
	// ints wraps for lengths near the largest int - an array of zero-sized elements can be that long)
	check("div", div, "group size from Len()/size")
	check("ceil", ceil, "rounded up when the division leaves a remainder")
	// appended in order: the Slice value goes (through the variadic slice) into append(groups, ...), whose
	// result is the next value of the same accumulator
	appended := false
	for _, ref := range *sl.Referrers() {
		st, ok := ref.(*ssa.Store)
		if !ok {
			continue
		}
		ia, ok := st.Addr.(*ssa.IndexAddr)
		if !ok {
			continue
		}
		al, ok := ia.X.(*ssa.Alloc)
		if !ok {
			continue
		}
		for _, r2 := range *al.Referrers() {
			s2, ok := r2.(*ssa.Slice)
			if !ok {
				continue
			}
			for _, r3 := range *s2.Referrers() {
				c, ok := r3.(*ssa.Call)
				if !ok {
					continue
				}
				if b, ok := c.Call.Value.(*ssa.Builtin); ok && b.Name() == "append" && len(c.Call.Args) == 2 && c.Call.Args[1] == ssa.Value(s2) {
					if acc, ok := c.Call.Args[0].(*ssa.Phi); ok {
						for _, e := range acc.Edges {
							if e == ssa.Value(c) {
								appended = true
							}
						}
					}
					// the accumulator is a captured variable: read from its cell, and the result written back to it
					if ld, ok := c.Call.Args[0].(*ssa.UnOp); ok && ld.Op == token.MUL && c.Referrers() != nil {
						for _, r4 := range *c.Referrers() {
							if st, ok := r4.(*ssa.Store); ok && st.Addr == ld.X && st.Val == ssa.Value(c) {
								appended = true
							}
						}
					}
				}
			}
		}
	}
	check("append u.Slice(pos,e)", appended, "the sub-slice [pos, e) of the sequence is appended to the groups in order")
	// one cut: whatever else is put into a list of reflect.Values on the way is the whole sequence (the one-group
	// case); a group made by another call - reflect.ValueOf(xs[a:b]) on a typed fast path - is a second way of cutting
	// that none of the steps above has looked at
	oneCut, otherCut := true, ""
	for _, g := range reachFns {
		for _, b := range g.Blocks {
			for _, ins := range b.Instrs {
				st, ok := ins.(*ssa.Store)
				if !ok || !isReflectValueType(st.Val.Type()) {
					continue
				}
				ia, ok := st.Addr.(*ssa.IndexAddr)
				if !ok {
					continue
				}
				if _, isAlloc := ia.X.(*ssa.Alloc); !isAlloc {
					continue
				}
				v := st.Val
				if v == ssa.Value(sl) || fam[v] || fam[nv(v)] || nv(v) == ssa.Value(sl) {
					continue
				}
				if c, isCall := nv(v).(*ssa.Call); isCall {
					oneCut, otherCut = false, calleeLabel(c)
				}
			}
		}
	}
	feats = append(feats, fmt.Sprintf("groupBy.oneCut=%v", oneCut))
	if oneCut {
		r.Ok("R4", name, "one cut", pos, "every group is the sub-slice cut by the one Slice call, or the whole sequence")
	} else {
		r.Bad("R4", name, "a second way of cutting groups", pos,
			"a group is made by "+otherCut+" and not by the partition loop: for the values that take that way the groups are cut by rules of their own (the one-group case, the rounded-up size and the clamp are those of the loop only)")
	}
	// R5: the array is made addressable before Slice (the panic ledger's proof for this Slice call)
	addr, _ := newLedger(w, sl.Parent()).sliceable(u, sl.Block())
	if addr {
		r.Ok("R5", name, "array made addressable before Slice", pos, "an array that cannot be addressed is copied into reflect.New(type).Elem() first")
	} else {
		r.Bad("R5", name, "Slice on a possibly unaddressable array", pos, "reflect.Value.Slice panics on an array held by value")
	}
	feats = append(feats, fmt.Sprintf("groupBy.addr=%v", addr))
	sort.Strings(feats)
	return []string{"groupBy=" + strings.Join(feats, ",")}
}

// ---- len ------------------------------------------------------------------------

type lenClass struct {
	name    string
	kind    int  // kind of the value itself
	elem    int  // kind of the pointee when kind is Ptr
	isNil   bool // nil pointer
	str     bool // the dynamic type is exactly string
	wantLen bool // the property defines len as the Go length of the (dereferenced) value
}

var c19LenClasses = []lenClass{
	{name: "string", kind: kString, str: true, wantLen: true},
	{name: "named string type", kind: kString, wantLen: true},
	{name: "slice", kind: kSlice, wantLen: true},
	{name: "array", kind: kArray, wantLen: true},
	{name: "map", kind: kMap, wantLen: true},
	{name: "pointer to slice", kind: kPtr, elem: kSlice, wantLen: true},
	{name: "pointer to string", kind: kPtr, elem: kString, wantLen: true},
	{name: "pointer to array", kind: kPtr, elem: kArray, wantLen: true},
	{name: "pointer to map", kind: kPtr, elem: kMap, wantLen: true},
	{name: "nil pointer", kind: kPtr, elem: kSlice, isNil: true},
	{name: "int", kind: kInt},
	{name: "struct", kind: kStruct},
	{name: "pointer to struct", kind: kPtr, elem: kStruct},
	{name: "nil", kind: kInvalid},
}

var lengthKinds = map[int]bool{kArray: true, kChan: true, kMap: true, kSlice: true, kString: true}

// lenKindOf: the reflect.Kind of the reflect.Value expression e for a value of class c (-1: unknown/panics).
func lenKindOf(p *pwPath, e ssa.Value, param ssa.Value, c lenClass) int {
	e = p.resolve(e)
	if e == p.resolve(param) {
		if _, isIface := e.Type().Underlying().(*types.Interface); !isIface {
			return c.kind // the classified value is a reflect.Value itself
		}
	}
	call, ok := e.(*ssa.Call)
	if !ok {
		return -1
	}
	if args, ok := reflectFunc(call, "ValueOf"); ok && len(args) == 1 {
		a := p.resolve(args[0])
		if a == param || p.resolve(stripIface(a)) == param {
			return c.kind
		}
		return -1
	}
	deref := func(inner int, strict bool) int {
		switch {
		case inner == kPtr && c.isNil:
			return kInvalid
		case inner == kPtr:
			return c.elem
		case strict:
			return -1 // Elem on a non-pointer panics
		}
		return inner
	}
	if args, ok := reflectFunc(call, "Indirect"); ok && len(args) == 1 {
		in := lenKindOf(p, args[0], param, c)
		if in < 0 {
			return -1
		}
		return deref(in, false)
	}
	if recv, _, ok := reflectValueCall(call, "Elem"); ok {
		in := lenKindOf(p, recv, param, c)
		if in < 0 {
			return -1
		}
		return deref(in, true)
	}
	return -1
}

func c19LenSSA(r *Run) {
	w := r.W
	var fo *types.Func
	for g, key := range w.helperRoots() {
		if key == "len" {
			fo = g
		}
	}
	f := w.FuncOf(fo)
	if f == nil {
		r.Lost("R5", "function registered as len")
		return
	}
	fn := w.SSAFunc(f)
	if fn == nil || len(fn.Params) != 1 {
		r.Lost("R5", "SSA form of the len helper")
		return
	}
	param := ssa.Value(fn.Params[0])
	paths, ok := walkPaths(fn, nil, func(caller, callee *ssa.Function) bool { return pkgOf(callee) == fn.Pkg })
	if !ok {
		r.Lost("R5", "paths of the len helper")
		return
	}
	name := f.Name()
	for _, c := range c19LenClasses {
		con := "len of a " + c.name
		var verdict, why string
		at := fn.Pos()
		n := 0
		for _, p := range paths {
			evalCond := func(v ssa.Value) (bool, bool) {
				v = p.resolve(v)
				switch x := v.(type) {
				case *ssa.BinOp:
					// an ordering of the kind against a constant (the bounds guard in front of a table indexed by kind)
					if x.Op == token.LSS || x.Op == token.LEQ || x.Op == token.GTR || x.Op == token.GEQ {
						kindOf := func(v ssa.Value) (int64, bool) {
							v = p.resolve(v)
							if cv, isConv := v.(*ssa.Convert); isConv {
								v = p.resolve(cv.X)
							}
							if recv, _, isKind := reflectValueCall(v, "Kind"); isKind {
								if kk := lenKindOf(p, recv, param, c); kk >= 0 {
									return int64(kk), true
								}
								return 0, false
							}
							if cc, isC := p.constOf(v); isC && cc.Kind() == constant.Int {
								n, exact := constant.Int64Val(cc)
								return n, exact
							}
							return 0, false
						}
						l, ok1 := kindOf(x.X)
						rr, ok2 := kindOf(x.Y)
						if !ok1 || !ok2 {
							return false, false
						}
						return constant.Compare(constant.MakeInt64(l), x.Op, constant.MakeInt64(rr)), true
					}
					if x.Op != token.EQL && x.Op != token.NEQ {
						return false, false
					}
					a, b := p.resolve(x.X), p.resolve(x.Y)
					if isNilConst(b) && (a == param) {
						return (c.kind == kInvalid) == (x.Op == token.EQL), true
					}
					if isNilConst(a) && (b == param) {
						return (c.kind == kInvalid) == (x.Op == token.EQL), true
					}
					if recv, _, isKind := reflectValueCall(a, "Kind"); isKind {
						if k, isC := constKind(b); isC {
							kk := lenKindOf(p, recv, param, c)
							if kk < 0 {
								return false, false
							}
							return (kk == k) == (x.Op == token.EQL), true
						}
					}
				case *ssa.Extract:
					// _, ok := set[Kind(v)] for a constant map used as a set of kinds
					if lk, isLk := x.Tuple.(*ssa.Lookup); isLk && lk.CommaOk && x.Index == 1 {
						ld, isLd := p.resolve(lk.X).(*ssa.UnOp)
						if !isLd {
							return false, false
						}
						g, isG := ld.X.(*ssa.Global)
						if !isG || g.Pkg == nil {
							return false, false
						}
						t := constTablesOf(g.Pkg)[g]
						recv, _, isKind := reflectValueCall(p.resolve(lk.Index), "Kind")
						if t == nil || t.isArray || !isKind {
							return false, false
						}
						kk := lenKindOf(p, recv, param, c)
						if kk < 0 {
							return false, false
						}
						_, found := t.lookup(constant.MakeInt64(int64(kk)))
						return found, true
					}
					if ta, isTA := x.Tuple.(*ssa.TypeAssert); isTA && x.Index == 1 && p.resolve(ta.X) == param {
						if isBasicKind(ta.AssertedType, types.String) && !isNamed(ta.AssertedType) {
							return c.str, true
						}
						if _, isPtr := ta.AssertedType.(*types.Pointer); isPtr {
							return false, false
						}
						if _, isIface := ta.AssertedType.Underlying().(*types.Interface); isIface {
							return false, false
						}
						return false, true // some other concrete type: none of the classes
					}
				case *ssa.Lookup:
					// table[Kind(v)] for a constant map[reflect.Kind]bool
					if x.CommaOk {
						return false, false
					}
					ld, isLd := p.resolve(x.X).(*ssa.UnOp)
					if !isLd {
						return false, false
					}
					g, isG := ld.X.(*ssa.Global)
					if !isG {
						return false, false
					}
					t := constTablesOf(g.Pkg)[g]
					recv, _, isKind := reflectValueCall(p.resolve(x.Index), "Kind")
					if t == nil || !isKind || !isBasicKind(t.valType, types.Bool) {
						return false, false
					}
					kk := lenKindOf(p, recv, param, c)
					if kk < 0 {
						return false, false
					}
					if tv, found := t.lookup(constant.MakeInt64(int64(kk))); found {
						if cv, isC := tv.(*ssa.Const); isC && cv.Value != nil && cv.Value.Kind() == constant.Bool {
							return constant.BoolVal(cv.Value), true
						}
						return false, false
					}
					return false, true
				case *ssa.UnOp:
					// table[Kind(v)] for a constant array table [N]bool indexed by kind
					if x.Op != token.MUL {
						return false, false
					}
					ia, isIA := x.X.(*ssa.IndexAddr)
					if !isIA {
						return false, false
					}
					g, isG := ia.X.(*ssa.Global)
					if !isG || g.Pkg == nil {
						return false, false
					}
					t := constTablesOf(g.Pkg)[g]
					if t == nil || !t.isArray || t.isSlice || !isBasicKind(t.valType, types.Bool) {
						return false, false
					}
					idx := p.resolve(ia.Index)
					if cv, isConv := idx.(*ssa.Convert); isConv {
						idx = p.resolve(cv.X)
					}
					recv, _, isKind := reflectValueCall(idx, "Kind")
					if !isKind {
						return false, false
					}
					kk := lenKindOf(p, recv, param, c)
					if kk < 0 {
						return false, false
					}
					if tv, found := t.lookup(constant.MakeInt64(int64(kk))); found {
						if cv, isC := tv.(*ssa.Const); isC && cv.Value != nil && cv.Value.Kind() == constant.Bool {
							return constant.BoolVal(cv.Value), true
						}
						return false, false
					}
					return false, true // not listed: the zero value
				case *ssa.Call:
					// slices.Contains(table, Kind(v)) for a constant []reflect.Kind
					if pkg, name := staticCalleeName(x); pkg == "slices" && name == "Contains" && len(x.Call.Args) == 2 {
						if set, isTab := kindTableSet(p.resolve(x.Call.Args[0])); isTab {
							if recv, _, isKind := reflectValueCall(p.resolve(x.Call.Args[1]), "Kind"); isKind {
								if kk := lenKindOf(p, recv, param, c); kk >= 0 && kk < 64 {
									return set&(1<<uint(kk)) != 0, true
								}
							}
						}
						return false, false
					}
					if recv, _, isV := reflectValueCall(x, "IsValid"); isV {
						if kk := lenKindOf(p, recv, param, c); kk >= 0 {
							return kk != kInvalid, true
						}
					}
					if recv, _, isN := reflectValueCall(x, "IsNil"); isN {
						if kk := lenKindOf(p, recv, param, c); kk == kPtr {
							return c.isNil, true
						}
					}
				}
				return false, false
			}
			consistent, known := true, true
			for _, d := range p.decisions {
				b, ok := evalCond(d.cond)
				if !ok {
					known = false
					break
				}
				if b != d.truth {
					consistent = false
					break
				}
			}
			if !consistent {
				continue
			}
			if !known {
				verdict, why = "bad", "the helper branches on something that is not the kind / nil-ness of its argument: its result for this class cannot be read"
				break
			}
			n++
			// no Len() on a value without a length on this path
			for _, ev := range p.events {
				if call, isCall := ev.(*ssa.Call); isCall {
					if recv, _, isLen := reflectValueCall(call, "Len"); isLen {
						if kk := lenKindOf(p, recv, param, c); !lengthKinds[kk] {
							verdict, why = "bad", "reflect.Value.Len panics for kinds without a length (int, struct, nil pointer, ...); it is reached for this class"
							at = call.Pos()
						}
					}
				}
			}
			if verdict != "" {
				break
			}
			if p.end != "return" || len(p.results) != 1 {
				verdict, why = "bad", "the helper does not return for this class"
				break
			}
			at = p.ret.Pos()
			if !c.wantLen {
				continue
			}
			res := p.resolve(p.results[0])
			seq := c.kind
			if c.kind == kPtr {
				seq = c.elem
			}
			okRes := false
			if recv, _, isLen := reflectValueCall(res, "Len"); isLen && lenKindOf(p, recv, param, c) == seq {
				okRes = true
			}
			if call, isCall := res.(*ssa.Call); isCall {
				if b, isB := call.Call.Value.(*ssa.Builtin); isB && b.Name() == "len" && len(call.Call.Args) == 1 && c.str {
					a := p.resolve(call.Call.Args[0])
					if ex, isEx := a.(*ssa.Extract); isEx {
						if ta, isTA := ex.Tuple.(*ssa.TypeAssert); isTA && p.resolve(ta.X) == param {
							okRes = true
						}
					}
					if ta, isTA := a.(*ssa.TypeAssert); isTA && p.resolve(ta.X) == param {
						okRes = true
					}
				}
			}
			if !okRes {
				verdict = "bad"
				if c.kind == kPtr {
					why = "len of a pointer to a string/slice/array/map must be the length of what it points to"
				} else {
					why = "values of this kind (including named types such as template.HTML) must report their Go length"
				}
				break
			}
		}
		if verdict == "" && n == 0 {
			verdict, why = "bad", "no path of the helper is taken by this class"
		}
		if verdict == "" {
			how := "no reflective Len() is reached"
			if c.wantLen {
				how = "the Go length of the (dereferenced) value on every path this class takes"
			}
			r.Ok("R5", name, con, w.Pos(at), how)
		} else {
			r.Bad("R5", name, con, w.Pos(at), why)
		}
	}
}

// kindSetDecision: cond tests the kind of a reflect value against a set kept as a constant table -- a
// map[reflect.Kind]bool or [N]bool indexed by the kind, or slices.Contains of a []reflect.Kind; returns the set for "true".
func kindSetDecision(p *pwPath, cond ssa.Value) (uint64, bool) {
	boolTable := func(t *constTable) (uint64, bool) {
		if t == nil || !isBasicKind(t.valType, types.Bool) {
			return 0, false
		}
		var set uint64
		for i, k := range t.keys {
			c, isC := t.vals[i].(*ssa.Const)
			if !isC || c.Value == nil || c.Value.Kind() != constant.Bool || k.Kind() != constant.Int {
				return 0, false
			}
			if n, exact := constant.Int64Val(k); exact && n >= 0 && n < 64 && constant.BoolVal(c.Value) {
				set |= 1 << uint(n)
			}
		}
		return set, true
	}
	isKindOf := func(v ssa.Value) bool {
		v = p.resolve(v)
		if cv, isConv := v.(*ssa.Convert); isConv {
			v = p.resolve(cv.X)
		}
		_, _, ok := reflectValueCall(v, "Kind")
		return ok
	}
	switch x := cond.(type) {
	case *ssa.Lookup:
		if x.CommaOk || !isKindOf(x.Index) {
			return 0, false
		}
		ld, isLd := p.resolve(x.X).(*ssa.UnOp)
		if !isLd || ld.Op != token.MUL {
			return 0, false
		}
		g, isG := ld.X.(*ssa.Global)
		if !isG || g.Pkg == nil {
			return 0, false
		}
		return boolTable(constTablesOf(g.Pkg)[g])
	case *ssa.UnOp:
		if x.Op != token.MUL {
			return 0, false
		}
		ia, isIA := x.X.(*ssa.IndexAddr)
		if !isIA || !isKindOf(ia.Index) {
			return 0, false
		}
		g, isG := ia.X.(*ssa.Global)
		if !isG || g.Pkg == nil {
			return 0, false
		}
		t := constTablesOf(g.Pkg)[g]
		if t == nil || !t.isArray || t.isSlice {
			return 0, false
		}
		return boolTable(t)
	case *ssa.Call:
		if pkg, name := staticCalleeName(x); pkg == "slices" && name == "Contains" && len(x.Call.Args) == 2 && isKindOf(x.Call.Args[1]) {
			return kindTableSet(p.resolve(x.Call.Args[0]))
		}
	}
	return 0, false
}

// spanListElement: lo and hi are two fields of ONE element of a list that a function of the module builds by
// appending one struct per iteration of a loop, and the element is picked by a counter that visits the list
// in order from its first element; returns the values the producer stored to those two fields, and the block
// of the producer's append.
func spanListElement(lo, hi ssa.Value) (plo, phi ssa.Value, appendBlock *ssa.BasicBlock, ok bool) {
	// field k of the element at index i of list T
	elemField := func(v ssa.Value) (list, idx ssa.Value, k int, ok bool) {
		switch x := v.(type) {
		case *ssa.Field:
			if ld, isLd := x.X.(*ssa.UnOp); isLd && ld.Op == token.MUL {
				if ia, isIA := ld.X.(*ssa.IndexAddr); isIA {
					return ia.X, ia.Index, x.Field, true
				}
			}
		case *ssa.UnOp:
			if x.Op == token.MUL {
				if fa, isFA := x.X.(*ssa.FieldAddr); isFA {
					if ia, isIA := fa.X.(*ssa.IndexAddr); isIA {
						return ia.X, ia.Index, fa.Field, true
					}
					// the range variable: a cell that receives the element whole, once per iteration
					if cell, isCell := fa.X.(*ssa.Alloc); isCell {
						var whole ssa.Value
						n := 0
						for _, ref := range *cell.Referrers() {
							switch r := ref.(type) {
							case *ssa.Store:
								if r.Addr == ssa.Value(cell) {
									whole = r.Val
									n++
								}
							case *ssa.FieldAddr:
								for _, r2 := range *r.Referrers() {
									if st, isSt := r2.(*ssa.Store); isSt && st.Addr == ssa.Value(r) {
										n += 2 // a field is overwritten
									}
								}
							}
						}
						if ld, isLd := whole.(*ssa.UnOp); n == 1 && isLd && ld.Op == token.MUL {
							if ia, isIA := ld.X.(*ssa.IndexAddr); isIA {
								return ia.X, ia.Index, fa.Field, true
							}
						}
					}
				}
			}
		}
		return nil, nil, 0, false
	}
	t0, i0, k0, ok0 := elemField(lo)
	t1, i1, k1, ok1 := elemField(hi)
	if !ok0 || !ok1 || t0 != t1 || i0 != i1 || k0 == k1 {
		return nil, nil, nil, false
	}
	// visited in order: the index counts from zero by one
	if _, fromZero := counterFromZero(i0); !fromZero {
		return nil, nil, nil, false
	}
	call, isCall := t0.(*ssa.Call)
	if !isCall {
		return nil, nil, nil, false
	}
	g := call.Call.StaticCallee()
	if g == nil || !inModule(g) || len(g.Blocks) == 0 || g.Signature.Results().Len() != 1 {
		return nil, nil, nil, false
	}
	// every return hands back the accumulator of one loop
	var acc *ssa.Phi
	for _, b := range g.Blocks {
		ret, isRet := b.Instrs[len(b.Instrs)-1].(*ssa.Return)
		if !isRet {
			continue
		}
		ops := retOperands(ret)
		if len(ops) != 1 {
			return nil, nil, nil, false
		}
		ph, isPhi := stripTrivialPhi(ops[0]).(*ssa.Phi)
		if !isPhi || (acc != nil && ph != acc) {
			return nil, nil, nil, false
		}
		acc = ph
	}
	if acc == nil {
		return nil, nil, nil, false
	}
	h := acc.Block()
	body := loopBodyOf(h)
	if len(body) < 2 {
		return nil, nil, nil, false
	}
	var elem ssa.Value
	for i, e := range acc.Edges {
		if !body[h.Preds[i]] {
			// before the loop: empty
			switch x := e.(type) {
			case *ssa.Const:
				if !x.IsNil() {
					return nil, nil, nil, false
				}
			case *ssa.MakeSlice:
				if c, isC := x.Len.(*ssa.Const); !isC || c.Value == nil || constant.Sign(c.Value) != 0 {
					return nil, nil, nil, false
				}
			case *ssa.Slice:
				// []T{} : the whole of an array of length 0
				pt, isPtr := x.X.Type().Underlying().(*types.Pointer)
				if !isPtr {
					return nil, nil, nil, false
				}
				if at, isArr := pt.Elem().Underlying().(*types.Array); !isArr || at.Len() != 0 {
					return nil, nil, nil, false
				}
			default:
				return nil, nil, nil, false
			}
			continue
		}
		base, el, isApp := singleAppended(e)
		if !isApp || base != ssa.Value(acc) || (elem != nil && el != elem) {
			return nil, nil, nil, false
		}
		elem = el
		appendBlock = e.(*ssa.Call).Block()
	}
	if elem == nil || appendBlock == nil {
		return nil, nil, nil, false
	}
	// the appended struct: built in a local, field by field
	ld, isLd := elem.(*ssa.UnOp)
	if !isLd || ld.Op != token.MUL {
		return nil, nil, nil, false
	}
	cell, isAl := ld.X.(*ssa.Alloc)
	if !isAl {
		return nil, nil, nil, false
	}
	fieldVal := func(k int) ssa.Value {
		var v ssa.Value
		n := 0
		for _, ref := range *cell.Referrers() {
			fa, isFA := ref.(*ssa.FieldAddr)
			if !isFA || fa.Field != k {
				continue
			}
			for _, r2 := range *fa.Referrers() {
				if st, isSt := r2.(*ssa.Store); isSt && st.Addr == ssa.Value(fa) {
					v = st.Val
					n++
				}
			}
		}
		if n != 1 {
			return nil
		}
		return v
	}
	plo, phi = fieldVal(k0), fieldVal(k1)
	if plo == nil || phi == nil {
		return nil, nil, nil, false
	}
	return plo, phi, appendBlock, true
}
