package main

// tableeval.go: tables computed by their initialiser. `var charClass = func() (t [256]byte) { for
// ch := range t { ... t[ch] = ... }; return }()` is as constant as a composite literal, it is just
// written as a loop. The builder - a function without parameters that only computes with constants,
// its own loop counters and its own array - is evaluated at analysis time (constant folding over
// its SSA form, bounded), and the resulting elements are the table. Anything outside that small
// language (a call, a load of other memory, a parameter) makes the evaluation give up.

import (
	"go/constant"
	"go/token"
	"go/types"

	"golang.org/x/tools/go/ssa"
)

type tblAddr struct {
	arr *ssa.Alloc
	idx int64
}

// evalTableBuilder runs fn (no parameters, one array result) and returns the elements of the array it returns.
func evalTableBuilder(fn *ssa.Function) (elems map[int64]constant.Value, length int64, elemT types.Type, ok bool) {
	if fn == nil || len(fn.Params) != 0 || len(fn.FreeVars) != 0 || len(fn.Blocks) == 0 || fn.Signature.Results().Len() != 1 {
		return nil, 0, nil, false
	}
	at, isArr := fn.Signature.Results().At(0).Type().Underlying().(*types.Array)
	if !isArr {
		return nil, 0, nil, false
	}
	env := map[ssa.Value]constant.Value{}
	arrays := map[*ssa.Alloc]map[int64]constant.Value{}
	addrs := map[ssa.Value]tblAddr{}
	whole := map[ssa.Value]*ssa.Alloc{} // a loaded array value -> the array it was loaded from (a snapshot is not taken: only `return *a`)
	val := func(v ssa.Value) (constant.Value, bool) {
		if c, isC := v.(*ssa.Const); isC {
			if c.Value == nil {
				// the zero value of a basic type
				if b, isB := c.Type().Underlying().(*types.Basic); isB {
					switch {
					case b.Info()&types.IsString != 0:
						return constant.MakeString(""), true
					case b.Info()&types.IsBoolean != 0:
						return constant.MakeBool(false), true
					case b.Info()&types.IsNumeric != 0:
						return constant.MakeInt64(0), true
					}
				}
				return nil, false
			}
			return c.Value, true
		}
		x, have := env[v]
		return x, have
	}
	zero := func(t types.Type) (constant.Value, bool) {
		b, isB := t.Underlying().(*types.Basic)
		if !isB {
			return nil, false
		}
		switch {
		case b.Info()&types.IsString != 0:
			return constant.MakeString(""), true
		case b.Info()&types.IsBoolean != 0:
			return constant.MakeBool(false), true
		case b.Info()&types.IsNumeric != 0:
			return constant.MakeInt64(0), true
		}
		return nil, false
	}
	wrap := func(c constant.Value, t types.Type) constant.Value {
		// integer types wrap around (byte arithmetic in class tables)
		b, isB := t.Underlying().(*types.Basic)
		if !isB || c.Kind() != constant.Int || b.Info()&types.IsInteger == 0 {
			return c
		}
		bits := map[types.BasicKind]uint{types.Uint8: 8, types.Int8: 8, types.Uint16: 16, types.Int16: 16, types.Uint32: 32, types.Int32: 32}[b.Kind()]
		if bits == 0 {
			return c
		}
		n, exact := constant.Int64Val(c)
		if !exact {
			return c
		}
		mask := int64(1)<<bits - 1
		n &= mask
		if b.Info()&types.IsUnsigned == 0 && n >= int64(1)<<(bits-1) {
			n -= int64(1) << bits
		}
		return constant.MakeInt64(n)
	}
	blk, prev := fn.Blocks[0], (*ssa.BasicBlock)(nil)
	for steps := 0; steps < 400000; steps++ {
		// phis first (parallel assignment)
		type upd struct {
			phi *ssa.Phi
			c   constant.Value
		}
		var ups []upd
		for _, ins := range blk.Instrs {
			phi, isPhi := ins.(*ssa.Phi)
			if !isPhi {
				break
			}
			pi := -1
			for i, p := range blk.Preds {
				if p == prev {
					pi = i
				}
			}
			if pi < 0 {
				return nil, 0, nil, false
			}
			c, have := val(phi.Edges[pi])
			if !have {
				return nil, 0, nil, false
			}
			ups = append(ups, upd{phi, c})
		}
		for _, u := range ups {
			env[u.phi] = u.c
		}
		for _, ins := range blk.Instrs {
			switch x := ins.(type) {
			case *ssa.Phi, *ssa.DebugRef:
			case *ssa.Alloc:
				if _, isA := x.Type().(*types.Pointer).Elem().Underlying().(*types.Array); !isA {
					return nil, 0, nil, false
				}
				arrays[x] = map[int64]constant.Value{}
			case *ssa.IndexAddr:
				al, isAl := x.X.(*ssa.Alloc)
				i, have := val(x.Index)
				if !isAl || arrays[al] == nil || !have || i.Kind() != constant.Int {
					return nil, 0, nil, false
				}
				n, _ := constant.Int64Val(i)
				if n < 0 || n >= x.X.Type().(*types.Pointer).Elem().Underlying().(*types.Array).Len() {
					return nil, 0, nil, false // would panic
				}
				addrs[x] = tblAddr{al, n}
			case *ssa.Store:
				a, isAddr := addrs[x.Addr]
				c, have := val(x.Val)
				if !isAddr || !have {
					// the zero initialisation of a named result: *t0 = zero array
					if al, isAl := x.Addr.(*ssa.Alloc); isAl && arrays[al] != nil {
						if cz, isC := x.Val.(*ssa.Const); isC && cz.Value == nil {
							arrays[al] = map[int64]constant.Value{}
							continue
						}
						// a whole array copied: `*t0 = *t0` (the named result handed to itself), or from another array
						// (only when the load is the instruction just before: no snapshot semantics to get wrong)
						if src := whole[x.Val]; src != nil {
							if ld, isLd := x.Val.(*ssa.UnOp); isLd && ld.Block() == blk {
								if src != al {
									cp := map[int64]constant.Value{}
									for k, v := range arrays[src] {
										cp[k] = v
									}
									arrays[al] = cp
								}
								continue
							}
						}
					}
					return nil, 0, nil, false
				}
				arrays[a.arr][a.idx] = c
			case *ssa.UnOp:
				switch x.Op {
				case token.MUL:
					if a, isAddr := addrs[x.X]; isAddr {
						c, have := arrays[a.arr][a.idx]
						if !have {
							var okz bool
							if c, okz = zero(x.Type()); !okz {
								return nil, 0, nil, false
							}
						}
						env[x] = c
					} else if al, isAl := x.X.(*ssa.Alloc); isAl && arrays[al] != nil {
						whole[x] = al
					} else {
						return nil, 0, nil, false
					}
				case token.NOT:
					c, have := val(x.X)
					if !have || c.Kind() != constant.Bool {
						return nil, 0, nil, false
					}
					env[x] = constant.MakeBool(!constant.BoolVal(c))
				case token.SUB, token.XOR:
					c, have := val(x.X)
					if !have {
						return nil, 0, nil, false
					}
					env[x] = wrap(constant.UnaryOp(x.Op, c, 0), x.Type())
				default:
					return nil, 0, nil, false
				}
			case *ssa.BinOp:
				a, ok1 := val(x.X)
				b, ok2 := val(x.Y)
				if !ok1 || !ok2 {
					return nil, 0, nil, false
				}
				switch x.Op {
				case token.EQL, token.NEQ, token.LSS, token.LEQ, token.GTR, token.GEQ:
					if a.Kind() != b.Kind() {
						return nil, 0, nil, false
					}
					env[x] = constant.MakeBool(constant.Compare(a, x.Op, b))
				case token.SHL, token.SHR:
					n, exact := constant.Uint64Val(b)
					if !exact || n > 63 {
						return nil, 0, nil, false
					}
					env[x] = wrap(constant.Shift(a, x.Op, uint(n)), x.Type())
				case token.QUO, token.REM:
					if constant.Sign(b) == 0 {
						return nil, 0, nil, false
					}
					op := x.Op
					if op == token.QUO && a.Kind() == constant.Int {
						op = token.QUO_ASSIGN // integer division
					}
					env[x] = wrap(constant.BinaryOp(a, op, b), x.Type())
				case token.ADD, token.SUB, token.MUL, token.AND, token.OR, token.XOR, token.AND_NOT:
					if a.Kind() != b.Kind() || a.Kind() == constant.Bool {
						return nil, 0, nil, false
					}
					env[x] = wrap(constant.BinaryOp(a, x.Op, b), x.Type())
				default:
					return nil, 0, nil, false
				}
			case *ssa.Convert:
				c, have := val(x.X)
				if !have {
					return nil, 0, nil, false
				}
				tb, isB := x.Type().Underlying().(*types.Basic)
				if !isB {
					return nil, 0, nil, false
				}
				switch {
				case tb.Info()&types.IsString != 0 && c.Kind() == constant.Int:
					n, _ := constant.Int64Val(c)
					if n < 0 || n > 0x10ffff {
						n = 0xfffd
					}
					env[x] = constant.MakeString(string(rune(n)))
				case tb.Info()&types.IsInteger != 0 && c.Kind() == constant.Int:
					env[x] = wrap(c, x.Type())
				case tb.Info()&types.IsString != 0 && c.Kind() == constant.String:
					env[x] = c
				default:
					return nil, 0, nil, false
				}
			case *ssa.ChangeType:
				c, have := val(x.X)
				if !have {
					return nil, 0, nil, false
				}
				env[x] = c
			case *ssa.Jump:
				prev, blk = blk, blk.Succs[0]
			case *ssa.If:
				c, have := val(x.Cond)
				if !have || c.Kind() != constant.Bool {
					return nil, 0, nil, false
				}
				if constant.BoolVal(c) {
					prev, blk = blk, blk.Succs[0]
				} else {
					prev, blk = blk, blk.Succs[1]
				}
			case *ssa.Return:
				if len(x.Results) != 1 {
					return nil, 0, nil, false
				}
				al := whole[x.Results[0]]
				if al == nil {
					return nil, 0, nil, false
				}
				// the array as it is now (a load earlier than a later store would be a stale snapshot: only
				// accept a load that sits in the returning block)
				if ld, isLd := x.Results[0].(*ssa.UnOp); !isLd || ld.Block() != blk {
					return nil, 0, nil, false
				}
				return arrays[al], at.Len(), at.Elem(), true
			default:
				return nil, 0, nil, false
			}
		}
	}
	return nil, 0, nil, false
}
