package main

// corpus.go: the regression corpora under /verif/seeded (property-breaking
// changes, each confirmed by a demonstration test when it was collected) and
// /verif/equiv (behaviour-preserving refactorings) are replayed in the thorough
// tier: every patch is applied IN MEMORY to the current sources of /repo (a
// packages overlay -- nothing is written, built or run) and the property's
// rules are evaluated on the result. A seeded change the property is expected
// to catch must produce a new finding; a refactoring must produce none.

import (
	"encoding/json"
	"fmt"
	"os"
	"path/filepath"
	"sort"
	"strconv"
	"strings"
)

type corpusPatch struct {
	Name   string
	Kind   string // seeded | equiv
	Path   string
	Expect []string // seeded: properties whose check reports it
}

func corpusPatches() []corpusPatch {
	var out []corpusPatch
	root := verifDir()
	expect := map[string][]string{}
	if b, err := os.ReadFile(filepath.Join(root, "seeded", "EXPECT.json")); err == nil {
		_ = json.Unmarshal(b, &expect)
	}
	for _, kind := range []string{"seeded", "equiv"} {
		ents, err := os.ReadDir(filepath.Join(root, kind))
		if err != nil {
			continue
		}
		for _, e := range ents {
			p := filepath.Join(root, kind, e.Name(), "patch.diff")
			if _, err := os.Stat(p); err != nil {
				continue
			}
			out = append(out, corpusPatch{Name: e.Name(), Kind: kind, Path: p, Expect: expect[e.Name()]})
		}
	}
	sort.Slice(out, func(i, j int) bool { return out[i].Kind+out[i].Name < out[j].Kind+out[j].Name })
	return out
}

// applyUnifiedDiff applies a git-style unified diff to the files under dir, in memory.
func applyUnifiedDiff(dir string, diff string) (map[string][]byte, error) {
	ov := map[string][]byte{}
	lines := strings.Split(diff, "\n")
	i := 0
	for i < len(lines) {
		if !strings.HasPrefix(lines[i], "--- ") {
			if strings.HasPrefix(lines[i], "rename from") {
				return nil, fmt.Errorf("renames are not replayed in memory")
			}
			i++
			continue
		}
		if i+1 >= len(lines) || !strings.HasPrefix(lines[i+1], "+++ ") {
			i++
			continue
		}
		oldName := strings.TrimSpace(strings.TrimPrefix(lines[i], "--- "))
		newName := strings.TrimSpace(strings.TrimPrefix(lines[i+1], "+++ "))
		i += 2
		strip := func(s string) string {
			if j := strings.IndexByte(s, '\t'); j >= 0 {
				s = s[:j]
			}
			if strings.HasPrefix(s, "a/") || strings.HasPrefix(s, "b/") {
				return s[2:]
			}
			return s
		}
		if newName == "/dev/null" {
			// a deleted file: an overlay cannot remove a file, but a file that holds nothing but its package
			// clause contributes nothing to the package
			path := filepath.Join(dir, strip(oldName))
			b, err := os.ReadFile(path)
			if err != nil {
				return nil, err
			}
			pkgName := ""
			for _, l := range strings.Split(string(b), "\n") {
				if strings.HasPrefix(l, "package ") {
					pkgName = strings.Fields(l)[1]
					break
				}
			}
			if pkgName == "" {
				return nil, fmt.Errorf("deleted file %s: no package clause", path)
			}
			ov[path] = []byte("package " + pkgName + "\n")
			for i < len(lines) && !strings.HasPrefix(lines[i], "diff --git") && !strings.HasPrefix(lines[i], "--- ") {
				i++
			}
			continue
		}
		path := filepath.Join(dir, strip(newName))
		var src []string
		if oldName != "/dev/null" {
			b, ok := ov[path]
			if !ok {
				var err error
				b, err = os.ReadFile(path)
				if err != nil {
					return nil, err
				}
			}
			src = strings.Split(string(b), "\n")
		}
		var dst []string
		pos := 0 // next unread line of src
		for i < len(lines) && strings.HasPrefix(lines[i], "@@") {
			// @@ -l,s +l,s @@
			hdr := lines[i]
			i++
			f := strings.Fields(hdr)
			if len(f) < 3 {
				return nil, fmt.Errorf("bad hunk header %q", hdr)
			}
			ol := strings.Split(strings.TrimPrefix(f[1], "-"), ",")
			start, err := strconv.Atoi(ol[0])
			if err != nil {
				return nil, fmt.Errorf("bad hunk header %q", hdr)
			}
			var hunk []string
			for i < len(lines) && !strings.HasPrefix(lines[i], "@@") && !strings.HasPrefix(lines[i], "diff --git") && !strings.HasPrefix(lines[i], "--- ") {
				if strings.HasPrefix(lines[i], "\\") {
					i++
					continue
				}
				if lines[i] == "" && i == len(lines)-1 {
					i++
					continue
				}
				hunk = append(hunk, lines[i])
				i++
			}
			var want []string
			for _, h := range hunk {
				if h == "" {
					h = " "
				}
				if h[0] == ' ' || h[0] == '-' {
					want = append(want, h[1:])
				}
			}
			// locate the hunk: at its stated line, or the nearest place where its old side matches
			at := -1
			if oldName == "/dev/null" {
				at = 0
			} else {
				matches := func(k int) bool {
					if k < pos || k+len(want) > len(src) {
						return false
					}
					for j, wl := range want {
						if src[k+j] != wl {
							return false
						}
					}
					return true
				}
				base := start - 1
				if len(want) == 0 {
					base = start
				}
				for d := 0; d < len(src)+1 && at < 0; d++ {
					if matches(base + d) {
						at = base + d
					} else if d > 0 && matches(base-d) {
						at = base - d
					}
				}
				if at < 0 {
					return nil, fmt.Errorf("hunk at line %d of %s does not apply to the current sources", start, strip(newName))
				}
			}
			dst = append(dst, src[pos:min(at, len(src))]...)
			pos = at
			for _, h := range hunk {
				if h == "" {
					h = " "
				}
				switch h[0] {
				case ' ':
					dst = append(dst, h[1:])
					pos++
				case '-':
					pos++
				case '+':
					dst = append(dst, h[1:])
				}
			}
		}
		if pos < len(src) {
			dst = append(dst, src[pos:]...)
		}
		out := strings.Join(dst, "\n")
		if oldName == "/dev/null" && !strings.HasSuffix(out, "\n") {
			out += "\n"
		}
		ov[path] = []byte(out)
	}
	if len(ov) == 0 {
		return nil, fmt.Errorf("no file section found in the patch")
	}
	return ov, nil
}
