package main

import (
	"go/ast"
	"go/types"
)

func init() {
	register("C14", checkC14, "schedules inside application-supplied helpers; concurrent registration of global helpers while rendering (not one of the operations the statement names)")
}

func checkC14(r *Run) {
	r.Rule("R1", "the shared parsed tree is read-only after construction (C13.R1) and Template.program is only written under the nil test (C13.R6)", 1)
	r.Rule("R2", "every access to the template cache lies between moot.Lock() and its deferred Unlock; no other function touches the cache", 1)
	r.Rule("R3", "every read or write of Context.data in Set/Value/Has/New and what they call is under that context's mutex; the lock is released before the outer context is consulted (no nested acquisition)", 1)
	r.Rule("R4", "no unlocked package-level writes from the render path (C13.R5) and a fresh evaluator per Exec", 1)
	r.Rule("R5", "no goroutines, selects or other ambient scheduling on the render path (C13.R3)", 1)
	effectRuleAST(r, "R1")
	programFieldRule(r, "R1")
	cacheLockRule(r, "R2")
	contextLockRule(r, "R3")
	globalStoreRule(r, "R4")
	ambientRule(r, "R5")
	r.Rule("R6", "a Template is shared between goroutines (the cache): apart from the once-written program its fields are only read - nothing stores into a field of a Template it did not just build, and no field's address is handed to other code", 1)
	sharedTemplateRule(r, "R6")
	r.Rule("R7", "an execution writes only into scopes of its own: a scope's outer scope is compared, read through (mutex, map lookups, the next link) or the receiver of a method that only reads it - never returned, converted, stored, passed on or written", 1)
	outerReadOnlyRule(r, "R7")
	r.Rule("R8", "no lock is taken twice: every function of the evaluator package gives back each sync lock it takes at every exit, and never calls - while holding a mutex - a method that locks the same mutex again (sync mutexes are not re-entrant: a second read lock deadlocks with a waiting writer)", 1)
	nestedLocksRule(r, "R8")
	r.Rule("R9", "the fields of a context in use are not written without its lock: a store into a field of a Context addresses a context the function has just allocated, or is dominated by a Lock of that context's mutex", 1)
	contextFieldWritesRule(r, "R9")
}

const (
	lkUnheld = iota
	lkHeld
	lkHeldDeferred
)

// mutexOp classifies a call as Lock/Unlock on the given mutex expression
// matcher.
func mutexOp(info *types.Info, c *ast.CallExpr, isMutex func(ast.Expr) bool) string {
	sel, ok := unparen(c.Fun).(*ast.SelectorExpr)
	if !ok || !isMutex(sel.X) {
		return ""
	}
	cal := calleeOf(info, c)
	if cal == nil {
		return ""
	}
	switch cal.Name() {
	case "Lock", "RLock":
		return "lock"
	case "Unlock", "RUnlock":
		return "unlock"
	}
	return ""
}

// lockTransfer returns the CFG transfer function for one mutex.
func lockTransfer(info *types.Info, isMutex func(ast.Expr) bool) func(ast.Node, int) int {
	return func(n ast.Node, st int) int {
		if d, ok := n.(*ast.DeferStmt); ok {
			if mutexOp(info, d.Call, isMutex) == "unlock" && st == lkHeld {
				return lkHeldDeferred
			}
			return st
		}
		for _, c := range nodeCalls(n) {
			switch mutexOp(info, c, isMutex) {
			case "lock":
				st = lkHeld
			case "unlock":
				if st == lkHeld {
					st = lkUnheld
				}
			}
		}
		return st
	}
}

func cacheLockRule(r *Run, rule string) {
	w := r.W
	info := w.Pkgs[""].TypesInfo
	cv := w.cacheVar()
	if cv == nil {
		r.Lost(rule, "package-level template cache map")
		return
	}
	// the package-level *sync.Mutex of the root package
	var mu *types.Var
	sc := w.Pkgs[""].Types.Scope()
	for _, n := range sc.Names() {
		if v, ok := sc.Lookup(n).(*types.Var); ok && (namedIs(v.Type(), "sync", "Mutex") || namedIs(v.Type(), "sync", "RWMutex")) {
			mu = v
		}
	}
	// ... or, when the cache is the field of a struct, the mutex field beside it
	if _, _, holderT := w.cacheVars(); holderT != nil {
		mu = nil
		st := holderT.Underlying().(*types.Struct)
		for i := 0; i < st.NumFields(); i++ {
			ft := st.Field(i).Type()
			if pt, isPtr := ft.(*types.Pointer); isPtr {
				ft = pt.Elem()
			}
			if namedIs(ft, "sync", "Mutex") || namedIs(ft, "sync", "RWMutex") {
				mu = st.Field(i)
			}
		}
	}
	if mu == nil {
		r.Lost(rule, "package-level mutex guarding the cache")
		return
	}
	isMu := func(e ast.Expr) bool { return varOf(info, e) == types.Object(mu) }
	for _, p := range w.All {
		for _, f := range w.Funcs(relOf(w, p.PkgPath)) {
			pinfo := f.Pkg.TypesInfo
			// (the field named in the composite literal that builds the cache object is its initialisation, not an access)
			litKeys := map[*ast.Ident]bool{}
			ast.Inspect(f.Decl.Body, func(n ast.Node) bool {
				if kv, ok := n.(*ast.KeyValueExpr); ok {
					if id, ok := kv.Key.(*ast.Ident); ok && pinfo.Uses[id] == types.Object(cv) {
						litKeys[id] = true
					}
				}
				return true
			})
			touches := false
			ast.Inspect(f.Decl.Body, func(n ast.Node) bool {
				if id, ok := n.(*ast.Ident); ok && pinfo.Uses[id] == cv && !litKeys[id] {
					touches = true
				}
				return true
			})
			if !touches {
				continue
			}
			// accesses inside function literals are not covered by the lock analysis
			inLit := false
			ast.Inspect(f.Decl.Body, func(n ast.Node) bool {
				if fl, ok := n.(*ast.FuncLit); ok {
					ast.Inspect(fl, func(m ast.Node) bool {
						if id, ok := m.(*ast.Ident); ok && pinfo.Uses[id] == cv {
							inLit = true
						}
						return true
					})
					return false
				}
				return true
			})
			if inLit {
				r.Bad(rule, f.Name(), "cache access inside a function literal", w.Pos(f.Decl.Pos()), "the lock state at the time the literal runs cannot be established")
			}
			g := cfgOf(pinfo, f.Decl.Body)
			tr := lockTransfer(pinfo, isMu)
			// a helper that is only ever called with the mutex held ("the caller must hold moot") starts
			// with it held: unexported, not used as a value, and every call of it is made in that state
			init := lkUnheld
			byCallers := calledOnlyWithLockHeld(w, f, isMuFor(w, mu))
			if byCallers {
				init = lkHeld
			}
			in := forwardStates(g, init, tr, func(n ast.Node, st int) {
				if _, isDefer := n.(*ast.DeferStmt); isDefer {
					return
				}
				ast.Inspect(n, func(m ast.Node) bool {
					if _, ok := m.(*ast.FuncLit); ok {
						return false
					}
					if id, ok := m.(*ast.Ident); ok && pinfo.Uses[id] == cv && !litKeys[id] {
						con := "cache access in " + short(w.Fset, n)
						if st == lkUnheld {
							r.Bad(rule, f.Name(), con, w.Pos(id.Pos()), "the template cache is accessed without holding its mutex on some path")
						} else {
							r.Ok(rule, f.Name(), con, w.Pos(id.Pos()), "mutex held")
						}
					}
					return true
				})
			})
			for st := range exitStates(g, in, tr) {
				if st == lkHeld && !byCallers {
					r.Bad(rule, f.Name(), "return with the cache mutex held", w.Pos(f.Decl.Pos()), "a path returns without releasing the mutex (no deferred Unlock)")
				}
				if st != lkHeld && st != lkHeldDeferred && byCallers {
					r.Bad(rule, f.Name(), "releases the mutex of its callers", w.Pos(f.Decl.Pos()), "a helper that is called with the mutex held must return with it held: its callers go on to use the cache")
				}
			}
		}
	}
}

// isMuFor: the expression denotes the package-level mutex, in any package's type information.
func isMuFor(w *World, mu *types.Var) func(info *types.Info, e ast.Expr) bool {
	return func(info *types.Info, e ast.Expr) bool { return varOf(info, e) == types.Object(mu) }
}

// calledOnlyWithLockHeld: f is an unexported function that is never used as a value and every call of it
// (there is at least one) sits where its caller holds the mutex on every path.
func calledOnlyWithLockHeld(w *World, f *FuncInfo, isMu func(info *types.Info, e ast.Expr) bool) bool {
	if f.Obj.Exported() || f.Obj.Type().(*types.Signature).Recv() != nil {
		return false
	}
	nCalls := 0
	for _, g := range w.AllFuncs() {
		if g.Obj == f.Obj {
			continue
		}
		ginfo := g.Pkg.TypesInfo
		uses, calls := 0, map[*ast.CallExpr]bool{}
		ast.Inspect(g.Decl.Body, func(n ast.Node) bool {
			switch x := n.(type) {
			case *ast.Ident:
				if ginfo.Uses[x] == types.Object(f.Obj) {
					uses++
				}
			case *ast.CallExpr:
				if calleeOf(ginfo, x) == f.Obj {
					calls[x] = true
				}
			}
			return true
		})
		if uses == 0 {
			continue
		}
		if uses != len(calls) {
			return false // used as a value somewhere
		}
		// inside a function literal the lock state is not known
		inLit := false
		ast.Inspect(g.Decl.Body, func(n ast.Node) bool {
			if fl, ok := n.(*ast.FuncLit); ok {
				ast.Inspect(fl, func(m ast.Node) bool {
					if c, ok := m.(*ast.CallExpr); ok && calls[c] {
						inLit = true
					}
					return true
				})
				return false
			}
			return true
		})
		if inLit {
			return false
		}
		cg := cfgOf(ginfo, g.Decl.Body)
		tr := lockTransfer(ginfo, func(e ast.Expr) bool { return isMu(ginfo, e) })
		ok := true
		forwardStates(cg, lkUnheld, tr, func(n ast.Node, st int) {
			ast.Inspect(n, func(m ast.Node) bool {
				if _, isLit := m.(*ast.FuncLit); isLit {
					return false
				}
				if c, isCall := m.(*ast.CallExpr); isCall && calls[c] {
					nCalls++
					if st != lkHeld && st != lkHeldDeferred {
						ok = false
					}
				}
				return true
			})
		})
		if !ok {
			return false
		}
	}
	return nCalls > 0
}

func relOf(w *World, pkgPath string) string {
	for rel, p := range w.Pkgs {
		if p.PkgPath == pkgPath {
			return rel
		}
	}
	return ""
}

func contextLockRule(r *Run, rule string) {
	w := r.W
	info := w.Pkgs[""].TypesInfo
	ct := w.NamedType("", "Context")
	if ct == nil {
		r.Lost(rule, "Context type")
		return
	}
	var dataF, muF, outerF *types.Var
	st := ct.Underlying().(*types.Struct)
	for i := 0; i < st.NumFields(); i++ {
		f := st.Field(i)
		switch {
		case isMapStringIface(f.Type()):
			dataF = f
		case namedIs(f.Type(), "sync", "Mutex") || namedIs(f.Type(), "sync", "RWMutex"):
			muF = f
		case namedIs(f.Type(), modPath, "Context") && !f.Embedded():
			outerF = f
		}
	}
	if dataF == nil || muF == nil || outerF == nil {
		r.Lost(rule, "data / mutex / outer fields of Context")
		return
	}
	// functions of interest: methods of Context and constructors returning *Context
	var fns []*FuncInfo
	for _, f := range w.Funcs("") {
		if isMethodOf(f, ct) {
			fns = append(fns, f)
			continue
		}
		sig := f.Obj.Type().(*types.Signature)
		if sig.Recv() == nil && sig.Results().Len() == 1 && namedIs(sig.Results().At(0).Type(), modPath, "Context") {
			fns = append(fns, f)
		}
	}
	for _, f := range fns {
		if !f.Decl.Name.IsExported() && !calledFromExported(w, f, fns) {
			// e.g. the unused export(): not one of the operations the property names
			r.Note("R3: %s is unexported and not called from Set/Value/Has/New: its unlocked access to data is outside the statement", f.Name())
			continue
		}
		// which receiver/object: accesses are expressions X.data where X is the receiver
		// (or a local holding the context under construction)
		fresh := freshContextLocals(info, f, ct)
		g := cfgOf(info, f.Decl.Body)
		// the mutex and data must belong to the same base object
		var curBase types.Object
		isMu := func(e ast.Expr) bool {
			x, fld := fieldOf(info, e)
			if fld != muF {
				return false
			}
			curBase = objOf(info, x)
			return true
		}
		tr := lockTransfer(info, isMu)
		in := forwardStates(g, lkUnheld, tr, func(n ast.Node, st int) {
			if _, isDefer := n.(*ast.DeferStmt); isDefer {
				return
			}
			ast.Inspect(n, func(m ast.Node) bool {
				if _, ok := m.(*ast.FuncLit); ok {
					return false
				}
				if _, ok := m.(*ast.CompositeLit); ok {
					return false // field initialisation of an object under construction
				}
				sel, ok := m.(*ast.SelectorExpr)
				if !ok {
					return true
				}
				x, fld := fieldOf(info, sel)
				if fld == dataF {
					base := objOf(info, x)
					con := "access " + short(w.Fset, sel) + " in " + short(w.Fset, n)
					switch {
					case base != nil && fresh[base]:
						r.Ok(rule, f.Name(), con, w.Pos(sel.Pos()), "object under construction, not yet published")
					case st == lkUnheld:
						r.Bad(rule, f.Name(), con, w.Pos(sel.Pos()), "Context.data is read or written without holding the context's mutex: concurrent Set/Value/Has/New on one context race")
					case base != curBase:
						r.Bad(rule, f.Name(), con, w.Pos(sel.Pos()), "Context.data of one context is accessed under the mutex of a different context")
					default:
						r.Ok(rule, f.Name(), con, w.Pos(sel.Pos()), "mutex held")
					}
					return false
				}
				return true
			})
			// lock order: calls into another context's methods must not happen while locked
			for _, c := range nodeCalls(n) {
				sel, ok := unparen(c.Fun).(*ast.SelectorExpr)
				if !ok {
					continue
				}
				if _, fld := fieldOf(info, sel.X); fld == outerF {
					con := "call " + short(w.Fset, c)
					if st == lkUnheld {
						r.Ok(rule, f.Name(), con, w.Pos(c.Pos()), "own mutex released before the outer context is consulted")
					} else {
						r.Bad(rule, f.Name(), con, w.Pos(c.Pos()), "the outer context is called while this context's mutex is held (nested acquisition: lock-order hazard)")
					}
				}
			}
		})
		for st := range exitStates(g, in, tr) {
			if st == lkHeld {
				r.Bad(rule, f.Name(), "return with the context mutex held", w.Pos(f.Decl.Pos()), "a path returns without releasing the mutex")
			}
		}
	}
	// the evaluator's direct reads of the private current context
	for _, f := range w.compilerMethods() {
		inspectBody(f.Decl.Body, false, func(n ast.Node) bool {
			if sel, ok := n.(*ast.SelectorExpr); ok {
				if _, fld := fieldOf(info, sel); fld == dataF {
					r.Note("R3: %s reads %s without the lock: the executing goroutine's own current context (not shared under the statement's scenario)", f.Name(), short(w.Fset, sel))
				}
			}
			return true
		})
	}
}

func isMapStringIface(t types.Type) bool {
	m, ok := t.(*types.Map)
	if !ok {
		return false
	}
	k, ok := m.Key().(*types.Basic)
	if !ok || k.Kind() != types.String {
		return false
	}
	_, ok = m.Elem().Underlying().(*types.Interface)
	return ok
}

// freshContextLocals: locals assigned from a composite literal of the
// Context type in this function (objects not yet visible to other goroutines).
func freshContextLocals(info *types.Info, f *FuncInfo, ct *types.Named) map[types.Object]bool {
	out := map[types.Object]bool{}
	inspectBody(f.Decl.Body, false, func(n ast.Node) bool {
		as, ok := n.(*ast.AssignStmt)
		if !ok || len(as.Lhs) != len(as.Rhs) {
			return true
		}
		for i, rhs := range as.Rhs {
			e := unparen(rhs)
			if u, ok := e.(*ast.UnaryExpr); ok {
				e = u.X
			}
			if cl, ok := e.(*ast.CompositeLit); ok {
				if nt, ok := info.Types[cl].Type.(*types.Named); ok && nt.Obj() == ct.Obj() {
					if o := objOf(info, as.Lhs[i]); o != nil {
						out[o] = true
					}
				}
			}
		}
		return true
	})
	return out
}

func calledFromExported(w *World, f *FuncInfo, all []*FuncInfo) bool {
	seen := map[*types.Func]bool{}
	var reach func(g *FuncInfo) bool
	reach = func(g *FuncInfo) bool {
		if seen[g.Obj] {
			return false
		}
		seen[g.Obj] = true
		for _, c := range callsIn(g.Decl.Body, false) {
			cal := calleeOf(g.Pkg.TypesInfo, c)
			if cal == f.Obj {
				return true
			}
			if fi := w.FuncOf(cal); fi != nil && fi.Rel == "" {
				if reach(fi) {
					return true
				}
			}
		}
		return false
	}
	for _, g := range all {
		if g.Decl.Name.IsExported() && reach(g) {
			return true
		}
	}
	return false
}
