package main

// pathwalk.go: a path-sensitive constant-propagating walk over the SSA form of
// one (small) function. It is a static analysis: no template, input or value
// of the program under analysis is ever executed; the walk enumerates the
// control-flow paths of the function, folds branch conditions that are
// constant under a seeding (e.g. "the operator parameter is the string +"),
// forks on the others, and records per path the decisions taken, the calls
// and stores met in order, and the returned values. Static callees selected
// by the client are walked in line (bounded depth, each function at most once
// per path), which makes the rules built on it independent of how the code is
// split into helpers and of the surface form of its branches (switch,
// if-chain, early return, flag variable).

import (
	"fmt"
	"go/constant"
	"go/token"
	"go/types"
	"reflect"
	"runtime"
	"sort"
	"strings"
	"sync"

	"golang.org/x/tools/go/ssa"
	"golang.org/x/tools/go/ssa/ssautil"
)

type pwDecision struct {
	cond  ssa.Value // resolved condition (negations stripped)
	truth bool
	at    *ssa.If
}

type pwPath struct {
	decisions []pwDecision
	events    []ssa.Instruction // calls (not inlined), stores, map updates, defers -- in execution order
	evDecided []int             // len(decisions) at the time of each event
	ret       *ssa.Return       // the root function's return (nil for panic/loop)
	results   []ssa.Value       // resolved return operands
	end       string            // return | panic | loop
	orderKey  string
	revisits  int                     // number of times a block was entered again (loop back edges taken)
	revisited map[*ssa.BasicBlock]int // ... per block
	loopHead  *ssa.BasicBlock         // for end == loop: the header that was re-entered
	loopFree  bool                    // ... without any undecided branch since the previous arrival (the loop cannot end)
	consts    map[ssa.Value]constant.Value
	alias     map[ssa.Value]ssa.Value
	tuples    map[ssa.Value][]ssa.Value
	mem       map[string]ssa.Value // store-to-load forwarding: address key -> last stored value on this path
	stores    map[string]ssa.Value // every store on the path (last value per address), never invalidated
	seed      func(*pwPath, ssa.Value) (constant.Value, bool)
	equate    bool                                            // a value found equal to a constant by a decision of this path folds to it (see equatedConst)
	loadHook  func(*pwPath, *ssa.UnOp) (constant.Value, bool) // consulted when a load executes and no store on this path determines it
	unknown   map[string]bool                                 // objects overwritten as a whole by a value that is not tracked
	loadAt    map[ssa.Value]int                               // load -> number of events recorded when it (last) executed
	marks     []pwMark                                        // every re-entry of a block on this path
	// copies: instruction of the program -> its per-activation copies made on this path (see copyInstr)
	copies map[ssa.Instruction][]ssa.Instruction
	// deferSpans: [from, to) ranges of events that happened while a deferred call ran at a function's exit
	deferSpans [][2]int
}

// pwMark: a block was entered again (a loop went round) when the path had this many decisions and events.
type pwMark struct {
	block      *ssa.BasicBlock
	nDecisions int
	nEvents    int
	// ... and this many at the previous arrival at the block (the way round lies between the two)
	fromDecisions int
	fromEvents    int
}

// addrKey is a canonical key for the address of a field of a (resolved)
// object or of a local cell; "" when the address is not tracked.
func (p *pwPath) addrKey(a ssa.Value) string {
	a = p.resolve(a)
	switch x := a.(type) {
	case *ssa.FieldAddr:
		// a field of an element of a tracked array (a table of structs): keyed by the element, not by the
		// instruction that computes its address
		if ia, ok := p.resolve(x.X).(*ssa.IndexAddr); ok {
			if bk := p.addrKey(ia); bk != "" {
				return fmt.Sprintf("%s.%d", bk, x.Field)
			}
		}
		return fmt.Sprintf("%s.%d", objKey(p.resolve(x.X)), x.Field)
	case *ssa.Alloc:
		return objKey(x)
	case *ssa.Global:
		return fmt.Sprintf("G%p", x)
	case *ssa.IndexAddr:
		// an element of a local array with a constant index (the backing array of a variadic call)
		if c, ok := p.constOf(x.Index); ok && c.Kind() == constant.Int {
			if base := p.addrKey(x.X); base != "" {
				n, _ := constant.Int64Val(c)
				return fmt.Sprintf("%s[%d]", base, n)
			}
		}
	}
	return ""
}

// objKey: the key of an object; a local cell whose address does not escape
// (no callee can write to it) is marked with a leading L.
func objKey(v ssa.Value) string {
	if a, ok := v.(*ssa.Alloc); ok && (!a.Heap || !allocEscapes(a)) {
		return fmt.Sprintf("L%p", a)
	}
	return fmt.Sprintf("%p", v)
}

var allocEscapeMemo sync.Map // *ssa.Alloc -> bool

// allocEscapes: the address of the allocation can reach code other than the loads and stores of its
// own function and of the module functions it is handed to as a plain argument (which in turn only
// load and store through it): a small accumulator struct `out := &loopOutput{}` with a method
// `out.add(x)` does not escape, so no other call can change it.
func allocEscapes(a *ssa.Alloc) bool {
	if v, ok := allocEscapeMemo.Load(a); ok {
		return v.(bool)
	}
	res := addrEscapes(a, 0, map[ssa.Value]bool{})
	allocEscapeMemo.Store(a, res)
	return res
}

func addrEscapes(v ssa.Value, depth int, seen map[ssa.Value]bool) bool {
	if depth > 3 || seen[v] {
		return depth > 3
	}
	seen[v] = true
	refs := v.Referrers()
	if refs == nil {
		return true
	}
	for _, r := range *refs {
		switch x := r.(type) {
		case *ssa.DebugRef:
		case *ssa.UnOp:
			if x.Op != token.MUL {
				return true
			}
			// a load through the address: of a pointer-free location that is fine; a loaded pointer to
			// another object is that object's business
		case *ssa.Store:
			if x.Val == v {
				return true // the address itself is stored somewhere
			}
		case *ssa.FieldAddr:
			if addrEscapes(x, depth, seen) {
				return true
			}
		case *ssa.IndexAddr:
			if addrEscapes(x, depth, seen) {
				return true
			}
		case *ssa.Call:
			callee := x.Call.StaticCallee()
			if callee == nil || !inModule(callee) || len(callee.Blocks) == 0 || len(callee.Params) != len(x.Call.Args) {
				return true
			}
			for j, arg := range x.Call.Args {
				if arg == v && addrEscapes(callee.Params[j], depth+1, seen) {
					return true
				}
			}
			if x.Call.Value == v {
				return true
			}
		default:
			return true
		}
	}
	return false
}

// sliceElems: v is a slice of a local array filled with constant-index stores
// (what the compiler builds for a variadic call); returns the elements.
func (p *pwPath) sliceElems(v ssa.Value) ([]ssa.Value, bool) {
	sl, ok := p.resolve(v).(*ssa.Slice)
	if !ok {
		return nil, false
	}
	base := p.addrKey(sl.X)
	if base == "" {
		return nil, false
	}
	var out []ssa.Value
	for i := 0; i < 64; i++ {
		e, ok := p.stores[fmt.Sprintf("%s[%d]", base, i)]
		if !ok {
			break
		}
		out = append(out, e)
	}
	return out, true
}

// structField: field idx of the struct value v (a load of a tracked object, or a Field of one).
func (p *pwPath) structField(v ssa.Value, idx int) (ssa.Value, bool) {
	v = p.resolve(v)
	for i := 0; i < 4; i++ {
		switch x := v.(type) {
		case *ssa.MakeInterface:
			v = p.resolve(x.X)
			continue
		case *ssa.ChangeInterface:
			v = p.resolve(x.X)
			continue
		}
		break
	}
	if ld, ok := v.(*ssa.UnOp); ok && ld.Op == token.MUL {
		if k := p.addrKey(ld.X); k != "" {
			// a field stored after the last whole-object store is known even if the object came from elsewhere
			fv, ok := p.stores[fmt.Sprintf("%s.%d", k, idx)]
			return fv, ok
		}
	}
	return nil, false
}

// fieldOfObj returns the value last stored on this path into field idx of the object obj.
func (p *pwPath) fieldOfObj(obj ssa.Value, idx int) (ssa.Value, bool) {
	v, ok := p.stores[fmt.Sprintf("%s.%d", objKey(p.resolve(obj)), idx)]
	return v, ok
}

type pwFrame struct {
	fn       *ssa.Function
	call     ssa.CallInstruction
	parent   *pwFrame
	retBlock *ssa.BasicBlock
	retIdx   int
	depth    int
	// sub: a second (third, ...) activation of a function on one path works on private copies of
	// its instructions, so that the values of the activations stay apart (the two calls of one
	// extracted helper with different arguments); maps the function's own values to the copies,
	// its parameters and free variables to what they are bound to. nil for a first activation.
	sub map[ssa.Value]ssa.Value
	// deferRun: the activation is a deferred call run at its caller's exit; deferStart: number of events when it began
	deferRun   bool
	deferStart int
}

// pwDeferRec: a defer registered by an activation (identified by its depth and function).
type pwDeferRec struct {
	depth int
	fn    *ssa.Function
	d     *ssa.Defer
}

// pwOrigin: copy of an instruction -> the instruction of the program it was made from
var pwOrigin sync.Map

// referrers: the instructions executed on this path that use v (for a value of the program: its
// referrers; for a per-activation copy: the copies of the original's referrers that take the copy).
func (p *pwPath) referrers(v ssa.Value) []ssa.Instruction {
	ov := origValue(v)
	rp := ov.Referrers()
	if rp == nil {
		return nil
	}
	if ov == v {
		return *rp
	}
	var out []ssa.Instruction
	for _, ref := range *rp {
		for _, c := range p.copies[ref] {
			var buf [8]*ssa.Value
			for _, op := range c.Operands(buf[:0]) {
				if op != nil && *op == v {
					out = append(out, c)
					break
				}
			}
		}
	}
	return out
}

// forgetProgram drops what the process-wide caches hold about a program that is no longer analysed
// (the corpus replay analyses many variants of the repository one after the other).
func forgetProgram(prog *ssa.Program) {
	if prog == nil {
		return
	}
	pwOrigin.Range(func(k, v interface{}) bool {
		if ins, ok := v.(ssa.Instruction); ok && ins.Parent() != nil && ins.Parent().Prog == prog {
			pwOrigin.Delete(k)
		}
		return true
	})
	constTabCache.Range(func(k, v interface{}) bool {
		if p, ok := k.(*ssa.Package); ok && p.Prog == prog {
			constTabCache.Delete(k)
		}
		return true
	})
	worldByProg.Delete(prog)
	allocEscapeMemo.Range(func(k, v interface{}) bool {
		if a, ok := k.(*ssa.Alloc); ok && a.Parent() != nil && a.Parent().Prog == prog {
			allocEscapeMemo.Delete(k)
		}
		return true
	})
	errPredCache.Range(func(k, v interface{}) bool {
		if ek, ok := k.(errPredKey); ok && ek.fn != nil && ek.fn.Prog == prog {
			errPredCache.Delete(k)
		}
		return true
	})
	loopBodyCache.Range(func(k, v interface{}) bool {
		if b, ok := k.(*ssa.BasicBlock); ok && b.Parent() != nil && b.Parent().Prog == prog {
			loopBodyCache.Delete(k)
		}
		return true
	})
}

// origInstr returns the program's instruction for a per-activation copy (or ins itself).
func origInstr(ins ssa.Instruction) ssa.Instruction {
	if o, ok := pwOrigin.Load(ins); ok {
		return o.(ssa.Instruction)
	}
	return ins
}

func origCall(c *ssa.Call) *ssa.Call { return origInstr(c).(*ssa.Call) }

// origValue: the program's value for a per-activation copy (structural analyses of the value
// graph -- induction variables, loop shapes -- are done on the program, not on the copies).
func origValue(v ssa.Value) ssa.Value {
	if ins, ok := v.(ssa.Instruction); ok {
		if o, ok := origInstr(ins).(ssa.Value); ok {
			return o
		}
	}
	return v
}

// syntheticIf stands for the branch of a decision that no If instruction of the program takes (min / max).
var syntheticIf = &ssa.If{}

var (
	synthLEQ    sync.Map // call -> *ssa.BinOp
	synthProtoM sync.Mutex
	synthProto  *ssa.BinOp
)

func isIntegerType(t types.Type) bool {
	b, ok := t.Underlying().(*types.Basic)
	return ok && b.Info()&types.IsInteger != 0
}

// syntheticLEQ: a comparison value `a <= b` that stands for the case split of the min / max call c
// (one per call; made from a copy of some comparison of the program so that it has the type bool).
func syntheticLEQ(c *ssa.Call) *ssa.BinOp {
	if v, ok := synthLEQ.Load(c); ok {
		// each path works on its own copy of the operands' meaning: a fresh value per use
		proto := v.(*ssa.BinOp)
		n := *proto
		return &n
	}
	synthProtoM.Lock()
	defer synthProtoM.Unlock()
	if synthProto == nil && c.Parent() != nil && c.Parent().Prog != nil {
		for fn := range ssautil.AllFunctions(c.Parent().Prog) {
			for _, b := range fn.Blocks {
				for _, ins := range b.Instrs {
					if bo, ok := ins.(*ssa.BinOp); ok && isBasicKind(bo.Type(), types.Bool) && (bo.Op == token.LSS || bo.Op == token.LEQ || bo.Op == token.GTR || bo.Op == token.GEQ) {
						synthProto = bo
						break
					}
				}
				if synthProto != nil {
					break
				}
			}
			if synthProto != nil {
				break
			}
		}
	}
	if synthProto == nil {
		return nil
	}
	n := *synthProto
	n.Op = token.LEQ
	synthLEQ.Store(c, &n)
	m := n
	return &m
}

// copyInstr makes a private copy of ins whose operands are replaced according to sub.
func copyInstr(ins ssa.Instruction, sub map[ssa.Value]ssa.Value) ssa.Instruction {
	rv := reflect.ValueOf(ins)
	n := reflect.New(rv.Elem().Type())
	n.Elem().Set(rv.Elem())
	c := n.Interface().(ssa.Instruction)
	switch x := c.(type) {
	case *ssa.Call:
		x.Call.Args = append([]ssa.Value(nil), x.Call.Args...)
	case *ssa.Defer:
		x.Call.Args = append([]ssa.Value(nil), x.Call.Args...)
	case *ssa.Go:
		x.Call.Args = append([]ssa.Value(nil), x.Call.Args...)
	case *ssa.MakeClosure:
		x.Bindings = append([]ssa.Value(nil), x.Bindings...)
	case *ssa.Return:
		x.Results = append([]ssa.Value(nil), x.Results...)
	case *ssa.Phi:
		x.Edges = append([]ssa.Value(nil), x.Edges...)
	case *ssa.Select:
		return ins // not copied (operands live in shared state records)
	}
	var buf [8]*ssa.Value
	for _, op := range c.Operands(buf[:0]) {
		if op == nil || *op == nil {
			continue
		}
		if nv, ok := sub[*op]; ok {
			*op = nv
		}
	}
	pwOrigin.Store(c, origInstr(ins))
	if v, ok := ins.(ssa.Value); ok {
		cv := c.(ssa.Value)
		// phis copied earlier in this activation that take this value on an edge now take the copy
		for _, o := range sub {
			if phi, ok := o.(*ssa.Phi); ok {
				if _, isCopy := pwOrigin.Load(phi); isCopy {
					for i, e := range phi.Edges {
						if e == v || (sub[v] != nil && e == sub[v]) {
							phi.Edges[i] = cv
						}
					}
				}
			}
		}
		sub[v] = cv
	}
	return c
}

func (fr *pwFrame) cloneChain() *pwFrame {
	if fr == nil {
		return nil
	}
	need := false
	for f := fr; f != nil; f = f.parent {
		if f.sub != nil {
			need = true
		}
	}
	if !need {
		return fr
	}
	n := *fr
	if fr.sub != nil {
		n.sub = make(map[ssa.Value]ssa.Value, len(fr.sub))
		for k, v := range fr.sub {
			n.sub[k] = v
		}
	}
	n.parent = fr.parent.cloneChain()
	return &n
}

type pwState struct {
	frame     *pwFrame
	block     *ssa.BasicBlock
	pred      *ssa.BasicBlock
	idx       int
	p         *pwPath
	decided   map[ssa.Value]bool
	visits    map[*ssa.BasicBlock]int
	inlined   map[*ssa.Function]bool
	deferring bool
	exiting   *ssa.BasicBlock         // loop header being left (second arrival)
	arrived   map[*ssa.BasicBlock]int // number of decisions at the latest arrival at a block
	arrivedEv map[*ssa.BasicBlock]int // number of events at the latest arrival at a block
	defers    []pwDeferRec            // defers registered and not yet run
}

type pathWalker struct {
	mu         *sync.Mutex
	loadHook   func(*pwPath, *ssa.UnOp) (constant.Value, bool)
	equate     bool // see pwPath.equate: only for consumers that do not re-evaluate the path's decisions against a model of their own
	rounds     int  // without unroll1: a loop header may be arrived at this many times before the path ends as "loop" (0: twice)
	unroll1    bool // loops: explore zero and one iteration (on re-entering a loop header the exit edge is forced)
	seed       func(*pwPath, ssa.Value) (constant.Value, bool)
	inline     func(caller, callee *ssa.Function) bool
	maxPaths   int
	maxDepth   int
	paths      []*pwPath
	overflow   bool
	iterCopies bool // the second iteration of a loop works on private copies of the instructions (loop-carried variables keep their first-iteration meaning)
	runDefers  bool // run the deferred calls of an activation at its exit (closures and functions the inline policy accepts)
	noTables   bool // do not resolve lookups in constant tables (used while the tables themselves are built)
	// splitMinMax: the builtins min and max of two integers are explored as two cases (recorded as a decision on a synthetic a <= b)
	splitMinMax bool
	// stopCall: the path ends (end == "stop") at this call, which is recorded as its last event
	stopCall func(p *pwPath, frameFn *ssa.Function, c *ssa.Call) bool
}

func (p *pwPath) clone() *pwPath {
	q := &pwPath{seed: p.seed, loadHook: p.loadHook, equate: p.equate, revisits: p.revisits}
	if p.revisited != nil {
		q.revisited = make(map[*ssa.BasicBlock]int, len(p.revisited))
		for k, v := range p.revisited {
			q.revisited[k] = v
		}
	}
	q.loadAt = make(map[ssa.Value]int, len(p.loadAt))
	for k, v := range p.loadAt {
		q.loadAt[k] = v
	}
	q.unknown = make(map[string]bool, len(p.unknown))
	for k, v := range p.unknown {
		q.unknown[k] = v
	}
	q.marks = append([]pwMark(nil), p.marks...)
	q.deferSpans = append([][2]int(nil), p.deferSpans...)
	if len(p.copies) > 0 {
		q.copies = make(map[ssa.Instruction][]ssa.Instruction, len(p.copies))
		for k, v := range p.copies {
			q.copies[k] = v[:len(v):len(v)]
		}
	}
	q.decisions = append([]pwDecision(nil), p.decisions...)
	q.events = append([]ssa.Instruction(nil), p.events...)
	q.evDecided = append([]int(nil), p.evDecided...)
	q.consts = make(map[ssa.Value]constant.Value, len(p.consts))
	for k, v := range p.consts {
		q.consts[k] = v
	}
	q.alias = make(map[ssa.Value]ssa.Value, len(p.alias))
	for k, v := range p.alias {
		q.alias[k] = v
	}
	q.tuples = make(map[ssa.Value][]ssa.Value, len(p.tuples))
	for k, v := range p.tuples {
		q.tuples[k] = v
	}
	q.mem = make(map[string]ssa.Value, len(p.mem))
	for k, v := range p.mem {
		q.mem[k] = v
	}
	q.stores = make(map[string]ssa.Value, len(p.stores))
	for k, v := range p.stores {
		q.stores[k] = v
	}
	return q
}

func (s *pwState) clone() *pwState {
	t := *s
	t.p = s.p.clone()
	t.frame = s.frame.cloneChain()
	t.defers = append([]pwDeferRec(nil), s.defers...)
	t.decided = make(map[ssa.Value]bool, len(s.decided))
	for k, v := range s.decided {
		t.decided[k] = v
	}
	t.visits = make(map[*ssa.BasicBlock]int, len(s.visits))
	for k, v := range s.visits {
		t.visits[k] = v
	}
	t.arrived = make(map[*ssa.BasicBlock]int, len(s.arrived))
	for k, v := range s.arrived {
		t.arrived[k] = v
	}
	t.arrivedEv = make(map[*ssa.BasicBlock]int, len(s.arrivedEv))
	for k, v := range s.arrivedEv {
		t.arrivedEv[k] = v
	}
	t.inlined = make(map[*ssa.Function]bool, len(s.inlined))
	for k, v := range s.inlined {
		t.inlined[k] = v
	}
	return &t
}

// resolve follows the aliases established on this path (phi -> chosen edge,
// parameter -> argument, call -> returned value, extract -> tuple component).
func (p *pwPath) resolve(v ssa.Value) ssa.Value {
	for i := 0; i < 64 && v != nil; i++ {
		switch x := v.(type) {
		case *ssa.Extract:
			if t, ok := p.tuples[p.resolveTuple(x.Tuple)]; ok && x.Index < len(t) {
				v = t[x.Index]
				continue
			}
		case *ssa.Field:
			if ld, ok := p.resolve(x.X).(*ssa.UnOp); ok && ld.Op == token.MUL && i < 60 {
				if k := p.addrKey(ld.X); k != "" {
					if fv, ok := p.stores[fmt.Sprintf("%s.%d", k, x.Field)]; ok {
						v = fv
						continue
					}
				}
			}
		}
		n, ok := p.alias[v]
		if !ok || n == v {
			return v
		}
		v = n
	}
	return v
}

func (p *pwPath) resolveTuple(v ssa.Value) ssa.Value {
	for i := 0; i < 16; i++ {
		if _, ok := p.tuples[v]; ok {
			return v
		}
		n, ok := p.alias[v]
		if !ok {
			return v
		}
		v = n
	}
	return v
}

// constOf folds v to a constant when it is one on this path.
func (p *pwPath) constOf(v ssa.Value) (constant.Value, bool) {
	return p.constOfD(v, 0)
}

func (p *pwPath) constOfD(v ssa.Value, d int) (constant.Value, bool) {
	if d > 24 || v == nil {
		return nil, false
	}
	v = p.resolve(v)
	if c, ok := v.(*ssa.Const); ok {
		if c.Value == nil {
			return nil, false
		}
		return c.Value, true
	}
	if c, ok := p.consts[v]; ok {
		return c, true
	}
	if p.seed != nil {
		if c, ok := p.seed(p, v); ok {
			return c, true
		}
	}
	// a value this path has found equal to a constant is that constant (a value has one meaning on a path)
	if p.equate && d < 14 {
		if c, ok := p.equatedConst(v, d); ok {
			return c, true
		}
	}
	switch x := v.(type) {
	case *ssa.BinOp:
		if x.Op == token.EQL || x.Op == token.NEQ {
			// nil compared with nil (e.g. an error variable that still holds its zero value on this path)
			if isNilConst(p.resolve(x.X)) && isNilConst(p.resolve(x.Y)) {
				return constant.MakeBool(x.Op == token.EQL), true
			}
		}
		a, ok1 := p.constOfD(x.X, d+1)
		b, ok2 := p.constOfD(x.Y, d+1)
		if !ok1 || !ok2 || a.Kind() != b.Kind() {
			return nil, false
		}
		switch x.Op {
		case token.EQL, token.NEQ, token.LSS, token.LEQ, token.GTR, token.GEQ:
			if a.Kind() == constant.Bool && x.Op != token.EQL && x.Op != token.NEQ {
				return nil, false
			}
			return constant.MakeBool(constant.Compare(a, x.Op, b)), true
		case token.ADD, token.SUB, token.MUL:
			if a.Kind() == constant.String && x.Op != token.ADD {
				return nil, false
			}
			if a.Kind() == constant.Bool {
				return nil, false
			}
			return constant.BinaryOp(a, x.Op, b), true
		case token.LAND, token.LOR, token.AND, token.OR:
			if a.Kind() == constant.Bool {
				if x.Op == token.LAND || x.Op == token.AND {
					return constant.MakeBool(constant.BoolVal(a) && constant.BoolVal(b)), true
				}
				return constant.MakeBool(constant.BoolVal(a) || constant.BoolVal(b)), true
			}
			if a.Kind() == constant.Int && (x.Op == token.AND || x.Op == token.OR) {
				return constant.BinaryOp(a, x.Op, b), true // bit masks (character class tables)
			}
		case token.XOR, token.AND_NOT:
			if a.Kind() == constant.Int {
				return constant.BinaryOp(a, x.Op, b), true
			}
		}
	case *ssa.UnOp:
		if x.Op == token.NOT {
			if a, ok := p.constOfD(x.X, d+1); ok && a.Kind() == constant.Bool {
				return constant.MakeBool(!constant.BoolVal(a)), true
			}
		}
	case *ssa.Convert:
		// string([]byte{c0, c1, ...}) with constant elements
		if bt, isB := x.Type().Underlying().(*types.Basic); isB && bt.Info()&types.IsString != 0 {
			if _, isSlice := x.X.Type().Underlying().(*types.Slice); isSlice {
				if els, ok := p.sliceElems(x.X); ok && len(els) > 0 {
					bs := make([]byte, 0, len(els))
					for _, e := range els {
						c, ok := p.constOfD(e, d+1)
						if !ok || c.Kind() != constant.Int {
							return nil, false
						}
						n, exact := constant.Int64Val(c)
						if !exact || n < 0 || n > 255 {
							return nil, false
						}
						bs = append(bs, byte(n))
					}
					return constant.MakeString(string(bs)), true
				}
			}
		}
		if a, ok := p.constOfD(x.X, d+1); ok {
			if bt, isB := x.Type().Underlying().(*types.Basic); isB && bt.Info()&types.IsString != 0 && a.Kind() == constant.String {
				return a, true
			}
			if bt, isB := x.Type().Underlying().(*types.Basic); isB && bt.Info()&types.IsString != 0 && a.Kind() == constant.Int {
				if n, exact := constant.Int64Val(a); exact && n >= 0 && n < 0x110000 {
					if xb, ok := x.X.Type().Underlying().(*types.Basic); ok && xb.Info()&types.IsInteger != 0 {
						return constant.MakeString(string(rune(n))), true
					}
				}
			}
			if bt, isB := x.Type().Underlying().(*types.Basic); isB && bt.Info()&types.IsInteger != 0 && a.Kind() == constant.Int {
				return a, true
			}
		}
	case *ssa.ChangeType:
		return p.constOfD(x.X, d+1)
	case *ssa.Call:
		if b, isB := x.Call.Value.(*ssa.Builtin); isB && b.Name() == "len" && len(x.Call.Args) == 1 {
			if t := p.sliceTableOf(x.Call.Args[0]); t != nil {
				return constant.MakeInt64(t.length), true
			}
			// the length of a nil slice / map, and of the whole of an array (a composite literal of a slice type)
			switch a := p.resolve(x.Call.Args[0]).(type) {
			case *ssa.Const:
				if a.IsNil() {
					return constant.MakeInt64(0), true
				}
			case *ssa.Slice:
				if a.Low == nil && a.High == nil && a.Max == nil {
					if pt, isPtr := a.X.Type().Underlying().(*types.Pointer); isPtr {
						if at, isArr := pt.Elem().Underlying().(*types.Array); isArr {
							return constant.MakeInt64(at.Len()), true
						}
					}
				}
			}
			// the length of a text that is known on this path
			if bt, isBasic := x.Call.Args[0].Type().Underlying().(*types.Basic); isBasic && bt.Info()&types.IsString != 0 {
				if a, ok := p.constOfD(x.Call.Args[0], d+1); ok && a.Kind() == constant.String {
					return constant.MakeInt64(int64(len(constant.StringVal(a)))), true
				}
			}
		}
		if c, ok := p.tableSearch(x, d); ok {
			return c, true
		}
		if c, ok := p.stringsFold(x, d); ok {
			return c, true
		}
	}
	return nil, false
}

// stringsFold: the pure searches of package strings (and bytes.IndexByte on a converted text) on arguments that
// are known on this path: strings.IndexByte(" \t\n\r", ch) >= 0 is a set of bytes written as a text.
func (p *pwPath) stringsFold(c *ssa.Call, d int) (constant.Value, bool) {
	pkg, name := staticCalleeName(c)
	if pkg != "strings" || len(c.Call.Args) != 2 {
		return nil, false
	}
	switch name {
	case "IndexByte", "IndexRune", "ContainsRune", "Contains", "ContainsAny", "Index", "HasPrefix", "HasSuffix", "IndexAny", "Count":
	default:
		return nil, false
	}
	a, ok := p.constOfD(c.Call.Args[0], d+1)
	if !ok || a.Kind() != constant.String {
		return nil, false
	}
	b, ok := p.constOfD(c.Call.Args[1], d+1)
	if !ok {
		return nil, false
	}
	s := constant.StringVal(a)
	switch name {
	case "IndexByte", "IndexRune", "ContainsRune":
		if b.Kind() != constant.Int {
			return nil, false
		}
		n, exact := constant.Int64Val(b)
		if !exact {
			return nil, false
		}
		switch name {
		case "IndexByte":
			if n < 0 || n > 255 {
				return nil, false
			}
			return constant.MakeInt64(int64(strings.IndexByte(s, byte(n)))), true
		case "IndexRune":
			return constant.MakeInt64(int64(strings.IndexRune(s, rune(n)))), true
		default:
			return constant.MakeBool(strings.ContainsRune(s, rune(n))), true
		}
	}
	if b.Kind() != constant.String {
		return nil, false
	}
	t := constant.StringVal(b)
	switch name {
	case "Contains":
		return constant.MakeBool(strings.Contains(s, t)), true
	case "ContainsAny":
		return constant.MakeBool(strings.ContainsAny(s, t)), true
	case "Index":
		return constant.MakeInt64(int64(strings.Index(s, t))), true
	case "IndexAny":
		return constant.MakeInt64(int64(strings.IndexAny(s, t))), true
	case "HasPrefix":
		return constant.MakeBool(strings.HasPrefix(s, t)), true
	case "HasSuffix":
		return constant.MakeBool(strings.HasSuffix(s, t)), true
	case "Count":
		return constant.MakeInt64(int64(strings.Count(s, t))), true
	}
	return nil, false
}

// equatedConst: a decision of this path compared v with a constant and found them equal.
func (p *pwPath) equatedConst(v ssa.Value, d int) (constant.Value, bool) {
	switch v.(type) {
	case *ssa.Call, *ssa.Parameter, *ssa.UnOp, *ssa.Extract, *ssa.Field, *ssa.Index, *ssa.Lookup, *ssa.Phi:
	default:
		return nil, false
	}
	if _, isBasic := v.Type().Underlying().(*types.Basic); !isBasic {
		return nil, false
	}
	for _, dc := range p.decisions {
		bo, ok := dc.cond.(*ssa.BinOp)
		if !ok || (bo.Op != token.EQL && bo.Op != token.NEQ) || dc.truth != (bo.Op == token.EQL) {
			continue
		}
		x, y := p.resolve(bo.X), p.resolve(bo.Y)
		other := y
		if x != v {
			if y != v {
				continue
			}
			other = x
		}
		if other == v {
			continue
		}
		if c, ok := p.constOfD(other, d+8); ok {
			return c, true
		}
	}
	return nil, false
}

// knownNil: v is the nil constant, or a value this path has decided to be nil.
func (p *pwPath) knownNil(v ssa.Value) bool {
	v = p.resolve(v)
	if isNilConst(v) {
		return true
	}
	for _, d := range p.decisions {
		bo, ok := d.cond.(*ssa.BinOp)
		if !ok || (bo.Op != token.EQL && bo.Op != token.NEQ) {
			continue
		}
		x, y := p.resolve(bo.X), p.resolve(bo.Y)
		if isNilConst(x) {
			x, y = y, x
		}
		if !isNilConst(y) || x != v {
			continue
		}
		if d.truth == (bo.Op == token.EQL) {
			return true
		}
	}
	return false
}

// knownNonNil: a freshly built error / object, or a value this path has decided to be non-nil.
func (p *pwPath) knownNonNil(v ssa.Value) bool {
	v = p.resolve(v)
	if definitelyNonNil(v) {
		return true
	}
	switch v.(type) {
	case *ssa.Alloc, *ssa.MakeMap, *ssa.MakeSlice, *ssa.MakeClosure, *ssa.MakeInterface:
		return true
	}
	for _, d := range p.decisions {
		bo, ok := d.cond.(*ssa.BinOp)
		if !ok || (bo.Op != token.EQL && bo.Op != token.NEQ) {
			continue
		}
		x, y := p.resolve(bo.X), p.resolve(bo.Y)
		if isNilConst(x) {
			x, y = y, x
		}
		if !isNilConst(y) || x != v {
			continue
		}
		if d.truth == (bo.Op == token.NEQ) {
			return true
		}
	}
	return false
}

// decidedAs: the truth of cond on this path when it was decided (negations handled).
func (p *pwPath) decidedAs(match func(ssa.Value) bool) (truth bool, idx int, found bool) {
	for i, d := range p.decisions {
		if match(d.cond) {
			return d.truth, i, true
		}
	}
	return false, -1, false
}

func stripNot(v ssa.Value) (ssa.Value, bool) {
	neg := false
	for {
		u, ok := v.(*ssa.UnOp)
		if !ok || u.Op != token.NOT {
			return v, neg
		}
		v, neg = u.X, !neg
	}
}

func (pw *pathWalker) walk(fn *ssa.Function) {
	if pw.maxPaths == 0 {
		pw.maxPaths = 20000
	}
	if pw.maxDepth == 0 {
		pw.maxDepth = 3
	}
	if len(fn.Blocks) == 0 {
		return
	}
	root := &pwFrame{fn: fn}
	st := &pwState{frame: root, block: fn.Blocks[0], p: &pwPath{seed: pw.seed, loadHook: pw.loadHook, equate: pw.equate, loadAt: map[ssa.Value]int{}, unknown: map[string]bool{}, consts: map[ssa.Value]constant.Value{}, alias: map[ssa.Value]ssa.Value{}, tuples: map[ssa.Value][]ssa.Value{}, mem: map[string]ssa.Value{}, stores: map[string]ssa.Value{}},
		decided: map[ssa.Value]bool{}, arrived: map[*ssa.BasicBlock]int{}, arrivedEv: map[*ssa.BasicBlock]int{}, visits: map[*ssa.BasicBlock]int{}, inlined: map[*ssa.Function]bool{fn: true}}
	// a parameter that every call site of the function feeds with the same constant (a flag, a token type the
	// callers fix) has that value: func (c *compiler) evalReturnStatement(node, wrapType) called with token.RETURN
	if !pw.noTables && fn.Prog != nil {
		if w := worldOfProg(fn.Prog); w != nil && fn.Parent() == nil && inModule(fn) {
			if sites, complete := w.callSitesAll(fn); complete && len(sites) > 0 {
				for i, prm := range fn.Params {
					if _, isBasic := prm.Type().Underlying().(*types.Basic); !isBasic {
						continue
					}
					var common constant.Value
					same := true
					for _, site := range sites {
						if i >= len(site.args) {
							same = false
							break
						}
						c, isC := site.args[i].(*ssa.Const)
						if !isC || c.Value == nil || (common != nil && (common.Kind() != c.Value.Kind() || !constant.Compare(common, token.EQL, c.Value))) {
							same = false
							break
						}
						common = c.Value
					}
					if same && common != nil {
						st.p.consts[prm] = common
					}
				}
			}
		}
	}
	// states are independent once forked: explore them on all cores; the result is put into a
	// canonical order afterwards so that reports do not depend on scheduling
	var (
		mu      sync.Mutex
		cond    = sync.NewCond(&mu)
		work    = []*pwState{st}
		running = 0
	)
	pw.mu = &mu
	workers := runtime.NumCPU()
	if workers > 16 {
		workers = 16
	}
	var wg sync.WaitGroup
	for i := 0; i < workers; i++ {
		wg.Add(1)
		go func() {
			defer wg.Done()
			for {
				mu.Lock()
				for len(work) == 0 && running > 0 && !pw.overflow {
					cond.Wait()
				}
				if len(work) == 0 || pw.overflow {
					mu.Unlock()
					cond.Broadcast()
					return
				}
				s := work[len(work)-1]
				work = work[:len(work)-1]
				running++
				mu.Unlock()
				next := pw.runLocked(s, &mu)
				mu.Lock()
				running--
				work = append(work, next...)
				if len(pw.paths) >= pw.maxPaths {
					pw.overflow = true
				}
				mu.Unlock()
				cond.Broadcast()
			}
		}()
	}
	wg.Wait()
	sort.SliceStable(pw.paths, func(i, j int) bool { return pw.paths[i].order() < pw.paths[j].order() })
}

// order: a canonical key of the path (the decisions it took and where it ended).
func (p *pwPath) order() string {
	if p.orderKey != "" {
		return p.orderKey
	}
	var sb strings.Builder
	for _, d := range p.decisions {
		if d.at != nil && d.at != syntheticIf {
			fmt.Fprintf(&sb, "%08d", int(d.at.Pos()))
			fmt.Fprintf(&sb, ".%03d", d.at.Block().Index)
		}
		if d.truth {
			sb.WriteByte('T')
		} else {
			sb.WriteByte('F')
		}
	}
	sb.WriteString("|" + p.end)
	if p.ret != nil {
		fmt.Fprintf(&sb, "%08d", int(p.ret.Pos()))
	}
	fmt.Fprintf(&sb, "|%d", len(p.events))
	p.orderKey = sb.String()
	return p.orderKey
}

func (pw *pathWalker) runLocked(s *pwState, mu *sync.Mutex) []*pwState {
	return pw.run(s)
}

func (pw *pathWalker) finish(s *pwState, end string, ret *ssa.Return) {
	s.p.end = end
	s.p.ret = ret
	if ret != nil {
		for _, r := range ret.Results {
			s.p.results = append(s.p.results, s.p.resolve(r))
		}
	}
	if pw.mu != nil {
		pw.mu.Lock()
		pw.paths = append(pw.paths, s.p)
		pw.mu.Unlock()
		return
	}
	pw.paths = append(pw.paths, s.p)
}

var loopBodyCache sync.Map // header block -> map[*ssa.BasicBlock]bool

// loopBodyOf: the natural loop of header h: h and the blocks that reach one of its back edges without passing through h.
func loopBodyOf(h *ssa.BasicBlock) map[*ssa.BasicBlock]bool {
	if v, ok := loopBodyCache.Load(h); ok {
		return v.(map[*ssa.BasicBlock]bool)
	}
	body := map[*ssa.BasicBlock]bool{h: true}
	var work []*ssa.BasicBlock
	for _, p := range h.Preds {
		if h.Dominates(p) && !body[p] {
			body[p] = true
			work = append(work, p)
		}
	}
	for len(work) > 0 {
		b := work[len(work)-1]
		work = work[:len(work)-1]
		for _, p := range b.Preds {
			if !body[p] && h.Dominates(p) {
				body[p] = true
				work = append(work, p)
			}
		}
	}
	loopBodyCache.Store(h, body)
	return body
}

// normCond: the condition a branch really depends on -- negations stripped, and a comparison of a
// bool with a bool this path knows (b == true, b != flag with flag constant here) reduced to b.
func (p *pwPath) normCond(v ssa.Value) (cond ssa.Value, neg bool) {
	cond = v
	for i := 0; i < 6; i++ {
		c, n := stripNot(p.resolve(cond))
		cond, neg = p.resolve(c), neg != n
		bo, ok := cond.(*ssa.BinOp)
		if !ok || (bo.Op != token.EQL && bo.Op != token.NEQ) || !isBasicKind(bo.X.Type(), types.Bool) {
			break
		}
		var other ssa.Value
		var k constant.Value
		if c, ok := p.constOf(bo.Y); ok && c.Kind() == constant.Bool {
			other, k = bo.X, c
		} else if c, ok := p.constOf(bo.X); ok && c.Kind() == constant.Bool {
			other, k = bo.Y, c
		}
		if other == nil {
			break
		}
		if _, bothConst := p.constOf(other); bothConst {
			break // folds as a whole
		}
		// other == k  is other when k, !other otherwise; != the reverse
		if constant.BoolVal(k) != (bo.Op == token.EQL) {
			neg = !neg
		}
		cond = other
	}
	return cond, neg
}

// run advances one state until it ends or forks; returns the successor states.
func (pw *pathWalker) run(s *pwState) []*pwState {
	for {
		b := s.block
		if s.idx == 0 {
			s.visits[b]++
			prevArr, seenBefore := s.arrived[b]
			prevEv := s.arrivedEv[b]
			s.arrived[b] = len(s.p.decisions)
			s.arrivedEv[b] = len(s.p.events)
			if s.visits[b] > 1 {
				s.p.revisits++
				if s.p.revisited == nil {
					s.p.revisited = map[*ssa.BasicBlock]int{}
				}
				s.p.revisited[b]++
				s.p.marks = append(s.p.marks, pwMark{b, len(s.p.decisions), len(s.p.events), prevArr, prevEv})
				s.p.loopHead = b
				s.p.loopFree = seenBefore && prevArr == len(s.p.decisions)
				// the block's values are computed afresh in the next iteration
				for _, ins := range b.Instrs {
					if v, ok := ins.(ssa.Value); ok {
						delete(s.decided, v)
						delete(s.p.consts, v)
					}
				}
				if pw.rounds > 0 && !pw.unroll1 && s.visits[b] <= pw.rounds && !s.p.loopFree {
					// another way round is explored (the first one may have been taken under open conditions that
					// are decided from now on): the path ends at the next arrival, or as soon as a round was free
					goto walkOn
				}
				if !pw.unroll1 || s.visits[b] > 2 {
					pw.finish(s, "loop", nil)
					return nil
				}
				// second arrival at a loop header: from here on every branch that can leave the loop does
				if s.exiting != nil {
					pw.finish(s, "loop", nil)
					return nil
				}
				s.exiting = b
				// the second time round works on private copies of the instructions, so that what the first
				// iteration computed keeps its meaning (a loop-carried variable is otherwise rebound under it)
				if s.frame.sub == nil && pw.iterCopies {
					nf := *s.frame
					nf.sub = map[ssa.Value]ssa.Value{}
					s.frame = &nf
				}
			}
		walkOn:
			// phis: parallel assignment from the incoming edge
			pi := -1
			for i, pr := range b.Preds {
				if pr == s.pred {
					pi = i
				}
			}
			type upd struct {
				phi *ssa.Phi
				v   ssa.Value
			}
			var ups []upd
			for _, ins := range b.Instrs {
				phi, ok := ins.(*ssa.Phi)
				if !ok {
					break
				}
				if pi >= 0 && pi < len(phi.Edges) {
					e := phi.Edges[pi]
					key := phi
					if s.frame.sub != nil {
						if n, ok := s.frame.sub[e]; ok {
							e = n
						}
						// the activation's copy of the phi (made at the first arrival)
						if c, ok := s.frame.sub[phi].(*ssa.Phi); ok {
							key = c
						} else {
							key = copyInstr(phi, s.frame.sub).(*ssa.Phi)
							if s.p.copies == nil {
								s.p.copies = map[ssa.Instruction][]ssa.Instruction{}
							}
							s.p.copies[phi] = append(s.p.copies[phi], key)
						}
					}
					ups = append(ups, upd{key, s.p.resolve(e)})
				}
			}
			for _, u := range ups {
				s.p.alias[u.phi] = u.v
				delete(s.p.consts, u.phi)
			}
		}
		for s.idx < len(b.Instrs) {
			ins := b.Instrs[s.idx]
			s.idx++
			if s.frame.sub != nil {
				switch ins.(type) {
				case *ssa.Phi, *ssa.DebugRef:
				default:
					o := origInstr(ins)
					ins = copyInstr(ins, s.frame.sub)
					if s.p.copies == nil {
						s.p.copies = map[ssa.Instruction][]ssa.Instruction{}
					}
					s.p.copies[o] = append(s.p.copies[o], ins)
				}
			}
			if v, isVal := ins.(ssa.Value); isVal {
				if _, isPhi := ins.(*ssa.Phi); !isPhi {
					// the instruction is (re)computed now: forget what an earlier execution left behind
					delete(s.p.alias, v)
					delete(s.p.consts, v)
					delete(s.p.tuples, v)
					delete(s.decided, v)
				}
			}
			switch x := ins.(type) {
			case *ssa.Phi, *ssa.DebugRef:
			case *ssa.Call:
				if bi, isBuiltin := x.Call.Value.(*ssa.Builtin); isBuiltin && pw.splitMinMax && (bi.Name() == "min" || bi.Name() == "max") && len(x.Call.Args) == 2 && isIntegerType(x.Type()) {
					// min(a, b) / max(a, b): two cases, decided by a synthetic comparison a <= b
					if cond := syntheticLEQ(x); cond != nil {
						a, bb := s.p.resolve(x.Call.Args[0]), s.p.resolve(x.Call.Args[1])
						cond.X, cond.Y = a, bb
						pick := func(st *pwState, leq bool) {
							if leq == (bi.Name() == "min") {
								st.p.alias[x] = a
							} else {
								st.p.alias[x] = bb
							}
						}
						other := s.clone()
						for i, st := range []*pwState{s, other} {
							leq := i == 0
							st.decided[cond] = leq
							st.p.decisions = append(st.p.decisions, pwDecision{cond: cond, truth: leq, at: syntheticIf})
							pick(st, leq)
						}
						return []*pwState{other, s}
					}
				}
				callee := x.Call.StaticCallee()
				boundWrapper := false
				if callee == nil && !x.Call.IsInvoke() {
					// a call of a function value that this path knows to be a particular closure
					if mc, ok := s.p.resolve(x.Call.Value).(*ssa.MakeClosure); ok {
						if f, ok := mc.Fn.(*ssa.Function); ok {
							callee = f
							boundWrapper = strings.HasPrefix(f.Synthetic, "bound method wrapper")
						}
					}
					// ... or a particular function (a predicate handed to a helper)
					if f, ok := s.p.resolve(x.Call.Value).(*ssa.Function); ok {
						callee = f
						// a method expression ((*Context).Has handed to a helper) is a thunk around the method: walked through
						if strings.HasPrefix(f.Synthetic, "thunk for") {
							boundWrapper = true
						}
					}
				}
				onStack := false
				for fr := s.frame; fr != nil; fr = fr.parent {
					if fr.fn == callee {
						onStack = true
					}
				}
				if callee != nil && len(callee.Blocks) > 0 && s.frame.depth < pw.maxDepth && !onStack && pw.inline != nil && (boundWrapper || pw.inline(s.frame.fn, callee)) && len(callee.Params) == len(x.Call.Args) {
					nf := &pwFrame{fn: callee, call: x, parent: s.frame, retBlock: b, retIdx: s.idx, depth: s.frame.depth + 1}
					bind := s.p.alias
					if s.inlined[callee] {
						// a second activation of the same function on this path: it works on private copies
						for _, cb := range callee.Blocks {
							delete(s.visits, cb)
							delete(s.arrived, cb)
							delete(s.arrivedEv, cb)
						}
						nf.sub = map[ssa.Value]ssa.Value{}
						bind = nf.sub
					}
					for i, prm := range callee.Params {
						bind[prm] = s.p.resolve(x.Call.Args[i])
					}
					// a closure: its free variables are the cells bound where it was made
					if mc, ok := s.p.resolve(x.Call.Value).(*ssa.MakeClosure); ok && len(mc.Bindings) == len(callee.FreeVars) {
						for i, fv := range callee.FreeVars {
							bind[fv] = s.p.resolve(mc.Bindings[i])
						}
					}
					s.inlined[callee] = true
					s.frame = nf
					s.block, s.pred, s.idx = callee.Blocks[0], nil, 0
					goto nextBlock
				}
				if pw.stopCall != nil && pw.stopCall(s.p, s.frame.fn, x) {
					s.p.events = append(s.p.events, ins)
					s.p.evDecided = append(s.p.evDecided, len(s.p.decisions))
					pw.finish(s, "stop", nil)
					return nil
				}
				s.p.events = append(s.p.events, ins)
				s.p.evDecided = append(s.p.evDecided, len(s.p.decisions))
				// a callee may write through any pointer it can reach: forget what is not a local cell
				if _, isBuiltin := x.Call.Value.(*ssa.Builtin); !isBuiltin {
					for k := range s.p.mem {
						if strings.Contains(k, ".") && !strings.HasPrefix(k, "L") {
							delete(s.p.mem, k)
						}
					}
					// ... and the local objects whose address this call is handed
					for _, a := range x.Call.Args {
						if al, ok := s.p.resolve(a).(*ssa.Alloc); ok {
							pre := objKey(al)
							for k := range s.p.mem {
								if strings.HasPrefix(k, pre) {
									delete(s.p.mem, k)
								}
							}
						}
					}
				}
			case *ssa.Store:
				if k := s.p.addrKey(x.Addr); k != "" {
					v := s.p.resolve(x.Val)
					s.p.mem[k] = v
					s.p.stores[k] = v
					// a store into a part of an object: the object as a whole is no longer what was stored into it before
					switch a := s.p.resolve(x.Addr).(type) {
					case *ssa.FieldAddr:
						if bk := s.p.addrKey(a.X); bk != "" {
							delete(s.p.mem, bk)
						}
					case *ssa.IndexAddr:
						if bk := s.p.addrKey(a.X); bk != "" {
							delete(s.p.mem, bk)
						}
					}
					if st, ok := x.Val.Type().Underlying().(*types.Struct); ok {
						// a whole struct is overwritten: its fields are those of the source object
						src := ""
						if ld, ok := v.(*ssa.UnOp); ok && ld.Op == token.MUL {
							src = s.p.addrKey(ld.X)
						}
						delete(s.p.unknown, k)
						zero := false
						if c, ok := v.(*ssa.Const); ok && c.Value == nil {
							zero = true // the zero value of the struct type: every field is zero
						}
						for i := 0; i < st.NumFields(); i++ {
							fk := fmt.Sprintf("%s.%d", k, i)
							delete(s.p.mem, fk)
							delete(s.p.stores, fk)
							if zero {
								z := zeroConst(st.Field(i).Type())
								s.p.mem[fk], s.p.stores[fk] = z, z
								continue
							}
							if src == "" {
								continue
							}
							// (a field entry of the source postdates its last whole-object store: it is valid
							// even when the rest of the source object is not known)
							if sv, ok := s.p.stores[fmt.Sprintf("%s.%d", src, i)]; ok {
								s.p.mem[fk], s.p.stores[fk] = sv, sv
							}
						}
						if !zero && (src == "" || s.p.unknown[src]) {
							s.p.unknown[k] = true
						}
					}
				}
				s.p.events = append(s.p.events, ins)
				s.p.evDecided = append(s.p.evDecided, len(s.p.decisions))
			case *ssa.UnOp:
				if x.Op == token.MUL {
					s.p.loadAt[x] = len(s.p.events)
					hit := false
					if k := s.p.addrKey(x.X); k != "" {
						if v, ok := s.p.mem[k]; ok {
							s.p.alias[x] = v
							hit = true
						}
					}
					if !hit && !pw.noTables {
						if v, ok := s.p.tableElem(x); ok {
							s.p.alias[x] = v
							hit = true
						}
					}
					// a package variable that only its initialiser writes: the value the initialiser stores
					if g, isG := x.X.(*ssa.Global); isG && !hit && !pw.noTables && g.Pkg != nil {
						if w := worldOfProg(g.Pkg.Prog); w != nil {
							if st := w.globalInitStore(g); st != nil {
								// (only values that cannot be modified through the variable: numbers, strings, types, functions)
								immutable := namedIs(st.Val.Type(), "reflect", "Type")
								switch st.Val.Type().Underlying().(type) {
								case *types.Basic, *types.Signature:
									immutable = true
								}
								if immutable {
									s.p.alias[x] = st.Val
									hit = true
								}
							}
						}
					}
					if !hit && s.p.loadHook != nil {
						if c, ok := s.p.loadHook(s.p, x); ok {
							s.p.consts[x] = c
						}
					}
				}
			case *ssa.BinOp:
				if x.Op == token.QUO || x.Op == token.REM {
					s.p.events = append(s.p.events, ins)
					s.p.evDecided = append(s.p.evDecided, len(s.p.decisions))
				}
			case *ssa.Lookup:
				if !pw.noTables {
					if v, found, ok := s.p.tableLookup(x); ok {
						if x.CommaOk {
							s.p.tuples[x] = []ssa.Value{v, ssa.NewConst(constant.MakeBool(found), types.Typ[types.Bool])}
						} else {
							s.p.alias[x] = v
						}
					}
				}
				s.p.events = append(s.p.events, ins)
				s.p.evDecided = append(s.p.evDecided, len(s.p.decisions))
			case *ssa.Defer:
				s.p.events = append(s.p.events, ins)
				s.p.evDecided = append(s.p.evDecided, len(s.p.decisions))
				if pw.runDefers {
					s.defers = append(s.defers[:len(s.defers):len(s.defers)], pwDeferRec{s.frame.depth, s.frame.fn, x})
				}
			case *ssa.RunDefers:
				if pw.runDefers {
					// the most recent defer of this activation that has not run yet
					at := -1
					for i := len(s.defers) - 1; i >= 0; i-- {
						if s.defers[i].depth == s.frame.depth && s.defers[i].fn == s.frame.fn {
							at = i
							break
						}
					}
					if at >= 0 {
						d := s.defers[at].d
						s.defers = append(append([]pwDeferRec(nil), s.defers[:at]...), s.defers[at+1:]...)
						callee := d.Call.StaticCallee()
						isClosure := false
						if mc, ok := s.p.resolve(d.Call.Value).(*ssa.MakeClosure); ok {
							if f, ok := mc.Fn.(*ssa.Function); ok {
								callee, isClosure = f, true
							}
						}
						if callee != nil && len(callee.Blocks) > 0 && s.frame.depth < pw.maxDepth+2 && len(callee.Params) == len(d.Call.Args) && (isClosure || (pw.inline != nil && pw.inline(s.frame.fn, callee))) {
							nf := &pwFrame{fn: callee, call: d, parent: s.frame, retBlock: b, retIdx: s.idx - 1, depth: s.frame.depth + 1, deferRun: true, deferStart: len(s.p.events)}
							bind := s.p.alias
							if s.inlined[callee] {
								for _, cb := range callee.Blocks {
									delete(s.visits, cb)
									delete(s.arrived, cb)
									delete(s.arrivedEv, cb)
								}
								nf.sub = map[ssa.Value]ssa.Value{}
								bind = nf.sub
							}
							for i, prm := range callee.Params {
								bind[prm] = s.p.resolve(d.Call.Args[i])
							}
							if mc, ok := s.p.resolve(d.Call.Value).(*ssa.MakeClosure); ok && len(mc.Bindings) == len(callee.FreeVars) {
								for i, fv := range callee.FreeVars {
									bind[fv] = s.p.resolve(mc.Bindings[i])
								}
							}
							s.inlined[callee] = true
							s.frame = nf
							s.block, s.pred, s.idx = callee.Blocks[0], nil, 0
							goto nextBlock
						}
						// not walked: the next one (this instruction is executed again)
						s.idx--
					}
				}
			case *ssa.MapUpdate, *ssa.Go, *ssa.Send, *ssa.IndexAddr, *ssa.Index, *ssa.Slice:
				s.p.events = append(s.p.events, ins)
				s.p.evDecided = append(s.p.evDecided, len(s.p.decisions))
			case *ssa.Return:
				if s.frame.parent == nil {
					pw.finish(s, "return", x)
					return nil
				}
				var res []ssa.Value
				for _, r := range x.Results {
					res = append(res, s.p.resolve(r))
				}
				fr := s.frame
				if fr.deferRun {
					s.p.deferSpans = append(s.p.deferSpans, [2]int{fr.deferStart, len(s.p.events)})
				}
				if cv, ok := fr.call.(*ssa.Call); ok {
					if len(res) == 1 {
						s.p.alias[cv] = res[0]
					} else if len(res) > 1 {
						s.p.tuples[cv] = res
					}
				}
				s.frame = fr.parent
				s.block, s.idx = fr.retBlock, fr.retIdx
				b = s.block
				continue
			case *ssa.Panic:
				pw.finish(s, "panic", nil)
				return nil
			case *ssa.Jump:
				s.pred, s.block, s.idx = b, b.Succs[0], 0
				goto nextBlock
			case *ssa.If:
				if s.exiting != nil {
					// (does the edge stay in the loop of that header? -- its natural loop, so that an enclosing
					// loop, through which everything reaches the header again, does not count)
					body := loopBodyOf(s.exiting)
					r0, r1 := body[b.Succs[0]], body[b.Succs[1]]
					if r0 != r1 {
						// exactly one edge leaves the loop: take it, and record the decision that does
						exit := 0
						if !r1 {
							exit = 1
						}
						cond, neg := s.p.normCond(x.Cond)
						truth := (exit == 0) != neg
						known := false
						if c, ok := s.p.constOf(cond); ok && c.Kind() == constant.Bool {
							known = true
							if constant.BoolVal(c) != truth {
								// the loop provably continues here: this path does not leave the loop
								pw.finish(s, "loop", nil)
								return nil
							}
						}
						if t, ok := s.decided[cond]; ok {
							known = true
							if t != truth {
								pw.finish(s, "loop", nil)
								return nil
							}
						}
						if !known {
							s.decided[cond] = truth
							s.p.decisions = append(s.p.decisions, pwDecision{cond: cond, truth: truth, at: x})
						}
						s.exiting = nil
						s.pred, s.idx = b, 0
						s.block = b.Succs[exit]
						goto nextBlock
					}
				}
				cond, neg := s.p.normCond(x.Cond)
				if c, ok := s.p.constOf(cond); ok && c.Kind() == constant.Bool {
					t := constant.BoolVal(c) != neg
					s.pred, s.idx = b, 0
					if t {
						s.block = b.Succs[0]
					} else {
						s.block = b.Succs[1]
					}
					goto nextBlock
				}
				// a nil test of a value whose nil-ness this path already knows (decided through another
				// comparison instruction, e.g. inside a callee that was walked in line)
				if bo, isBO := cond.(*ssa.BinOp); isBO && (bo.Op == token.EQL || bo.Op == token.NEQ) {
					x, y := s.p.resolve(bo.X), s.p.resolve(bo.Y)
					if isNilConst(x) {
						x, y = y, x
					}
					if isNilConst(y) {
						known, isNil := false, false
						if s.p.knownNil(x) {
							known, isNil = true, true
						} else if s.p.knownNonNil(x) {
							known, isNil = true, false
						}
						if known {
							t := (isNil == (bo.Op == token.EQL)) != neg
							s.pred, s.idx = b, 0
							if t {
								s.block = b.Succs[0]
							} else {
								s.block = b.Succs[1]
							}
							goto nextBlock
						}
					}
				}
				if t, ok := s.decided[cond]; ok {
					t = t != neg
					s.pred, s.idx = b, 0
					if t {
						s.block = b.Succs[0]
					} else {
						s.block = b.Succs[1]
					}
					goto nextBlock
				}
				// fork
				other := s.clone()
				for i, st := range []*pwState{s, other} {
					truth := i == 0 // successor 0 is the true edge
					st.decided[cond] = truth != neg
					st.p.decisions = append(st.p.decisions, pwDecision{cond: cond, truth: truth != neg, at: x})
					st.pred, st.idx = b, 0
					st.block = b.Succs[i]
				}
				return []*pwState{other, s}
			}
		}
		// a block without terminator (should not happen)
		pw.finish(s, "panic", nil)
		return nil
	nextBlock:
	}
}

// walkPathsUnrolled explores every loop for zero and one iteration.
func walkPathsUnrolled(fn *ssa.Function, seed func(*pwPath, ssa.Value) (constant.Value, bool), inline func(caller, callee *ssa.Function) bool, max int) ([]*pwPath, bool) {
	pw := &pathWalker{seed: seed, inline: inline, unroll1: true, maxPaths: max}
	pw.walk(fn)
	return pw.paths, !pw.overflow
}

// walkPaths is the convenience entry.
func walkPaths(fn *ssa.Function, seed func(*pwPath, ssa.Value) (constant.Value, bool), inline func(caller, callee *ssa.Function) bool) ([]*pwPath, bool) {
	pw := &pathWalker{seed: seed, inline: inline}
	pw.walk(fn)
	return pw.paths, !pw.overflow
}

// isParamFieldLoad: v is `*(&param.Field)` for the given parameter index and field name.
func isParamFieldLoad(p *pwPath, v ssa.Value, fn *ssa.Function, paramIdx int, field string) bool {
	u, ok := v.(*ssa.UnOp)
	if !ok || u.Op != token.MUL {
		return false
	}
	fa, ok := u.X.(*ssa.FieldAddr)
	if !ok || paramIdx >= len(fn.Params) {
		return false
	}
	base := fa.X
	if p != nil {
		base = p.resolve(base)
	}
	if base != ssa.Value(fn.Params[paramIdx]) {
		return false
	}
	st, ok := fa.X.Type().Underlying().(*types.Pointer)
	if !ok {
		return false
	}
	str, ok := st.Elem().Underlying().(*types.Struct)
	if !ok || fa.Field >= str.NumFields() {
		return false
	}
	return str.Field(fa.Field).Name() == field
}
