package main

import (
	"fmt"
	"go/ast"
	"go/token"
	"go/types"
	"sort"
	"strings"
)

func init() {
	register("C06", checkC06, "numeric and string RESULTS of well-guarded operator paths; which characters form a number; regexp semantics of ~=; prefix '-' (registered in the parser, unknown to the evaluator: outside the statement)")
}

// specification tables (from the property statement)
var c06Groups = [][]string{ // ascending binding strength
	{"&&", "||"},
	{"==", "!=", "~="},
	{"<", "<=", ">", ">="},
	{"+", "-"},
	{"*", "/"},
}

var goOpFor = map[string]token.Token{
	"+": token.ADD, "-": token.SUB, "*": token.MUL, "/": token.QUO,
	"<": token.LSS, "<=": token.LEQ, ">": token.GTR, ">=": token.GEQ,
	"==": token.EQL, "!=": token.NEQ, "&&": token.LAND, "||": token.LOR,
}

func checkC06(r *Run) {
	r.Rule("R1", "precedence table: strict chain && || < == != ~= < comparisons < + - < * / < prefix < call,index; equal level inside a group; fallback level below every operator", 8)
	r.Rule("R2", "infix registry and precedence table have the same key set", 8)
	r.Rule("R3", "left associativity: Pratt loop continues on strict 'precedence < peekPrecedence()'; the infix parser recurses with the operator's own level read before advancing; cur/peek lookups use the right token field", 1)
	r.Rule("R4", "operator tables: each case label returns the Go expression with the same operator on (left,right) in parameter order; '/' is dominated by a zero-divisor error return; fall-through is an error", 12)
	r.Rule("R5", "short circuit: the right operand is evaluated only after '&&' with a falsy left returned false and '||' with a truthy left returned true", 1)
	r.Rule("R6", "lexer literal = token constant = evaluator label for every operator token", 6)
	r.Rule("R7", "every arm of the inside-tag token switch leaves the cursor exactly behind its token", 10)

	r.Rule("R8", "'!' negates the uniform truthiness predicate of its operand", 1)
	prefixBangRuleSSA(r, "R8")
	c06Precedence(r)
	c06PrattSSA(r)
	c06TablesSSA(r)
	c06ShortCircuitSSA(r)
	c06LexerLiterals(r)
	lexerCursorRuleSSA(r, "R7", func(g lexGroup) bool { return !(len(g.bytes) == 1 && g.bytes[0] == '#') })
}

// ---- R1/R2 ---------------------------------------------------------------------

// precedenceTable finds the package-level map[token.Type]int of package parser.
func (w *World) precedenceTable() (*types.Var, *ast.CompositeLit) {
	p := w.Pkgs["parser"]
	for _, f := range p.Syntax {
		for _, d := range f.Decls {
			gd, ok := d.(*ast.GenDecl)
			if !ok || gd.Tok != token.VAR {
				continue
			}
			for _, s := range gd.Specs {
				vs := s.(*ast.ValueSpec)
				for i, n := range vs.Names {
					v, _ := p.TypesInfo.Defs[n].(*types.Var)
					if v == nil {
						continue
					}
					mt, ok := v.Type().Underlying().(*types.Map)
					if !ok || !namedIs(mt.Key(), tokPath, "Type") {
						continue
					}
					if b, ok := mt.Elem().Underlying().(*types.Basic); !ok || b.Kind() != types.Int {
						continue
					}
					if i < len(vs.Values) {
						if cl, ok := vs.Values[i].(*ast.CompositeLit); ok {
							return v, cl
						}
					}
				}
			}
		}
	}
	return nil, nil
}

func c06Precedence(r *Run) {
	w := r.W
	info := w.Pkgs["parser"].TypesInfo
	tv, lit := w.precedenceTable()
	if lit == nil {
		r.Lost("R1", "package-level map[token.Type]int in package parser")
		return
	}
	fn := "parser." + tv.Name()
	level := map[string]int64{}
	for _, e := range lit.Elts {
		kv, ok := e.(*ast.KeyValueExpr)
		if !ok {
			r.Bad("R1", fn, "element "+short(w.Fset, e), w.Pos(e.Pos()), "precedence table element is not key: value")
			continue
		}
		k, ok1 := constString(info, kv.Key)
		v, ok2 := constInt(info, kv.Value)
		if !ok1 || !ok2 {
			r.Bad("R1", fn, "element "+short(w.Fset, e), w.Pos(e.Pos()), "precedence table entry is not constant")
			continue
		}
		if old, dup := level[k]; dup && old != v {
			r.Bad("R1", fn, "duplicate key "+k, w.Pos(e.Pos()), "token listed twice with different levels")
		}
		level[k] = v
	}
	// any write to the table outside its literal
	for _, f := range w.AllFuncs() {
		inspectBody(f.Decl.Body, false, func(n ast.Node) bool {
			as, ok := n.(*ast.AssignStmt)
			if !ok {
				return true
			}
			for _, l := range as.Lhs {
				if ix, ok := l.(*ast.IndexExpr); ok && objOf(f.Pkg.TypesInfo, ix.X) == tv {
					r.Bad("R1", f.Name(), "write "+short(w.Fset, as), w.Pos(as.Pos()), "precedence table modified at run time")
				}
			}
			return true
		})
	}
	// fallback level: the constant the lookups of the table yield when the key is absent (on paths)
	lowest, lowestOK := int64(0), false
	prefixLevel, prefixOK := int64(0), false
	if pmod := w.prattSSA(); pmod.why == "" {
		vals, at, n := pmod.fallbacks()
		switch {
		case n == 0 || len(vals) == 0:
		case len(vals) > 1:
			r.Bad("R1", fn, fmt.Sprintf("fallback levels %v", vals), w.Pos(at[vals[1]]), "the precedence lookups fall back to different levels")
			lowest, lowestOK = vals[0], true
		default:
			lowest, lowestOK = vals[0], true
			r.Ok("R1", fn, fmt.Sprintf("fallback level %d", lowest), w.Pos(at[lowest]), fmt.Sprintf("the constant every lookup of the table (%d) yields for a token without level", n))
		}
	}
	if !lowestOK {
		r.Lost("R1", "fallback level of the precedence lookups")
		return
	}
	// prefix level: argument of the Pratt entry inside the prefix-operator parser
	pratt := w.prattFn()
	if bang := w.registeredFn("!", false); bang != nil && pratt != nil {
		for _, c := range callsIn(bang.Decl.Body, false) {
			if calleeOf(info, c) == pratt.Obj && len(c.Args) == 1 {
				if v, ok := constInt(info, c.Args[0]); ok {
					prefixLevel, prefixOK = v, true
				}
			}
		}
	}
	if !prefixOK {
		r.Lost("R1", "prefix-operator parser recursing into the Pratt entry with a constant level")
		return
	}
	prev := lowest
	prevName := "fallback"
	for _, g := range c06Groups {
		var lv int64
		have := false
		for _, op := range g {
			v, ok := level[op]
			if !ok {
				r.Bad("R1", fn, "missing "+op, w.Pos(lit.Pos()), "operator has no precedence level (it would never bind)")
				continue
			}
			if have && v != lv {
				r.Bad("R1", fn, "group "+strings.Join(g, " "), w.Pos(lit.Pos()),
					fmt.Sprintf("operators of one precedence class have different levels (%s=%d, %s=%d)", g[0], lv, op, v))
			}
			if !have {
				lv, have = v, true
			}
			if v <= prev {
				r.Bad("R1", fn, "order "+op+" vs "+prevName, w.Pos(lit.Pos()),
					fmt.Sprintf("level of %s (%d) must be above %s (%d)", op, v, prevName, prev))
			} else {
				r.Ok("R1", fn, "level("+op+") > "+prevName, w.Pos(lit.Pos()), fmt.Sprintf("%d > %d", v, prev))
			}
		}
		if have {
			prev, prevName = lv, strings.Join(g, " ")
		}
	}
	if prefixLevel <= prev {
		r.Bad("R1", fn, "prefix level", w.Pos(lit.Pos()), fmt.Sprintf("prefix operators (%d) must bind tighter than * / (%d)", prefixLevel, prev))
	} else {
		r.Ok("R1", fn, "prefix > * /", w.Pos(lit.Pos()), fmt.Sprintf("%d > %d", prefixLevel, prev))
	}
	for _, op := range []string{"(", "["} {
		if v, ok := level[op]; !ok || v <= prefixLevel {
			r.Bad("R1", fn, "call/index level "+op, w.Pos(lit.Pos()), "call and index must bind tighter than prefix operators")
		} else {
			r.Ok("R1", fn, "level("+op+") > prefix", w.Pos(lit.Pos()), fmt.Sprintf("%d > %d", v, prefixLevel))
		}
	}
	known := map[string]bool{"(": true, "[": true}
	for _, g := range c06Groups {
		for _, op := range g {
			known[op] = true
		}
	}
	var keys []string
	for k := range level {
		keys = append(keys, k)
	}
	sort.Strings(keys)
	for _, k := range keys {
		if !known[k] {
			r.Bad("R1", fn, "extra key "+k, w.Pos(lit.Pos()), "token with a precedence level that the property's operator set does not contain")
		}
	}
	// R2
	reg := map[string]bool{}
	for _, g := range w.registrations() {
		if g.Infix {
			reg[g.Token] = true
		}
	}
	for _, k := range keys {
		if reg[k] {
			r.Ok("R2", fn, "infix fn for "+k, w.Pos(lit.Pos()), "registered")
		} else {
			r.Bad("R2", fn, "no infix function for "+k, w.Pos(lit.Pos()), "token has a precedence level but no infix parse function (the expression would end there)")
		}
	}
	var rk []string
	for k := range reg {
		rk = append(rk, k)
	}
	sort.Strings(rk)
	for _, k := range rk {
		if _, ok := level[k]; !ok {
			r.Bad("R2", fn, "no level for registered "+k, w.Pos(lit.Pos()), "infix parse function registered for a token without precedence level (it never binds)")
		}
	}
}

// prattFn: the parser method with a single int parameter returning
// ast.Expression (the Pratt entry point).
func (w *World) prattFn() *FuncInfo {
	for _, f := range w.parserMethods() {
		sig := f.Obj.Type().(*types.Signature)
		if sig.Params().Len() == 1 && sig.Results().Len() == 1 {
			if b, ok := sig.Params().At(0).Type().(*types.Basic); ok && b.Kind() == types.Int {
				if namedIs(sig.Results().At(0).Type(), astPath, "Expression") {
					return f
				}
			}
		}
	}
	return nil
}

func conjuncts(e ast.Expr) []ast.Expr {
	e = unparen(e)
	if be, ok := e.(*ast.BinaryExpr); ok && be.Op == token.LAND {
		return append(conjuncts(be.X), conjuncts(be.Y)...)
	}
	return []ast.Expr{e}
}

func disjuncts(e ast.Expr) []ast.Expr {
	e = unparen(e)
	if be, ok := e.(*ast.BinaryExpr); ok && be.Op == token.LOR {
		return append(disjuncts(be.X), disjuncts(be.Y)...)
	}
	return []ast.Expr{e}
}

func isCallTo(info *types.Info, e ast.Expr, f *types.Func) bool {
	c, ok := unparen(e).(*ast.CallExpr)
	return ok && f != nil && calleeOf(info, c) == f
}

// ---- R4 ---------------------------------------------------------------------

// opTable describes one per-type operator function.
type opTable struct {
	fn     *FuncInfo
	l, r   *types.Var
	op     *types.Var
	kind   string // int, float, string, bool, nil
	labels []string
}

func (w *World) operatorTables() (tabs []opTable, infixEval *FuncInfo) {
	infixEval = w.evalMethod("InfixExpression")
	if infixEval == nil {
		return nil, nil
	}
	info := w.Pkgs[""].TypesInfo
	seen := map[*types.Func]bool{}
	for _, c := range callsIn(infixEval.Decl.Body, false) {
		cal := calleeOf(info, c)
		fi := w.FuncOf(cal)
		if fi == nil || seen[cal] || !isMethodOf(fi, w.compilerType()) {
			continue
		}
		sig := cal.Type().(*types.Signature)
		if sig.Params().Len() != 3 || sig.Results().Len() != 2 {
			continue
		}
		if b, ok := sig.Params().At(2).Type().(*types.Basic); !ok || b.Kind() != types.String {
			continue
		}
		seen[cal] = true
		t := opTable{fn: fi, l: sig.Params().At(0), r: sig.Params().At(1), op: sig.Params().At(2)}
		switch lt := sig.Params().At(0).Type().(type) {
		case *types.Basic:
			switch lt.Kind() {
			case types.Int:
				t.kind = "int"
			case types.Float64:
				t.kind = "float"
			case types.String:
				t.kind = "string"
			}
		}
		tabs = append(tabs, t)
	}
	return
}

// ---- R5 ---------------------------------------------------------------------
