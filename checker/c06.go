package main

import (
	"fmt"
	"go/ast"
	"go/token"
	"go/types"
	"sort"
	"strings"
)

func init() {
	register("C06", checkC06, "numeric and string RESULTS of well-guarded operator paths; which characters form a number; regexp semantics of ~=; prefix '-' (registered in the parser, unknown to the evaluator: outside the statement)")
}

// specification tables (from the property statement)
var c06Groups = [][]string{ // ascending binding strength
	{"&&", "||"},
	{"==", "!=", "~="},
	{"<", "<=", ">", ">="},
	{"+", "-"},
	{"*", "/"},
}

var goOpFor = map[string]token.Token{
	"+": token.ADD, "-": token.SUB, "*": token.MUL, "/": token.QUO,
	"<": token.LSS, "<=": token.LEQ, ">": token.GTR, ">=": token.GEQ,
	"==": token.EQL, "!=": token.NEQ, "&&": token.LAND, "||": token.LOR,
}

func checkC06(r *Run) {
	r.Rule("R1", "precedence table: strict chain && || < == != ~= < comparisons < + - < * / < prefix < call,index; equal level inside a group; fallback level below every operator", 8)
	r.Rule("R2", "infix registry and precedence table have the same key set", 8)
	r.Rule("R3", "left associativity: Pratt loop continues on strict 'precedence < peekPrecedence()'; the infix parser recurses with the operator's own level read before advancing; cur/peek lookups use the right token field", 1)
	r.Rule("R4", "operator tables: each case label returns the Go expression with the same operator on (left,right) in parameter order; '/' is dominated by a zero-divisor error return; fall-through is an error", 12)
	r.Rule("R5", "short circuit: the right operand is evaluated only after '&&' with a falsy left returned false and '||' with a truthy left returned true", 1)
	r.Rule("R6", "lexer literal = token constant = evaluator label for every operator token", 6)
	r.Rule("R7", "every arm of the inside-tag token switch leaves the cursor exactly behind its token", 10)

	r.Rule("R8", "'!' negates the uniform truthiness predicate of its operand", 1)
	prefixBangRuleSSA(r, "R8")
	c06Precedence(r)
	c06PrattSSA(r)
	c06TablesSSA(r)
	c06ShortCircuitSSA(r)
	c06LexerLiterals(r)
	lexerCursorRuleSSA(r, "R7", func(g lexGroup) bool { return !(len(g.bytes) == 1 && g.bytes[0] == '#') })
}

// ---- R1/R2 ---------------------------------------------------------------------

// precedenceTable finds the package-level map[token.Type]int of package parser.
func (w *World) precedenceTable() (*types.Var, *ast.CompositeLit) {
	p := w.Pkgs["parser"]
	for _, f := range p.Syntax {
		for _, d := range f.Decls {
			gd, ok := d.(*ast.GenDecl)
			if !ok || gd.Tok != token.VAR {
				continue
			}
			for _, s := range gd.Specs {
				vs := s.(*ast.ValueSpec)
				for i, n := range vs.Names {
					v, _ := p.TypesInfo.Defs[n].(*types.Var)
					if v == nil {
						continue
					}
					mt, ok := v.Type().Underlying().(*types.Map)
					if !ok || !namedIs(mt.Key(), tokPath, "Type") {
						continue
					}
					if b, ok := mt.Elem().Underlying().(*types.Basic); !ok || b.Kind() != types.Int {
						continue
					}
					if i < len(vs.Values) {
						if cl, ok := vs.Values[i].(*ast.CompositeLit); ok {
							return v, cl
						}
					}
				}
			}
		}
	}
	return nil, nil
}

func c06Precedence(r *Run) {
	w := r.W
	info := w.Pkgs["parser"].TypesInfo
	tv, lit := w.precedenceTable()
	if lit == nil {
		r.Lost("R1", "package-level map[token.Type]int in package parser")
		return
	}
	fn := "parser." + tv.Name()
	level := map[string]int64{}
	for _, e := range lit.Elts {
		kv, ok := e.(*ast.KeyValueExpr)
		if !ok {
			r.Bad("R1", fn, "element "+short(w.Fset, e), w.Pos(e.Pos()), "precedence table element is not key: value")
			continue
		}
		k, ok1 := constString(info, kv.Key)
		v, ok2 := constInt(info, kv.Value)
		if !ok1 || !ok2 {
			r.Bad("R1", fn, "element "+short(w.Fset, e), w.Pos(e.Pos()), "precedence table entry is not constant")
			continue
		}
		if old, dup := level[k]; dup && old != v {
			r.Bad("R1", fn, "duplicate key "+k, w.Pos(e.Pos()), "token listed twice with different levels")
		}
		level[k] = v
	}
	// any write to the table outside its literal
	for _, f := range w.AllFuncs() {
		inspectBody(f.Decl.Body, false, func(n ast.Node) bool {
			as, ok := n.(*ast.AssignStmt)
			if !ok {
				return true
			}
			for _, l := range as.Lhs {
				if ix, ok := l.(*ast.IndexExpr); ok && objOf(f.Pkg.TypesInfo, ix.X) == tv {
					r.Bad("R1", f.Name(), "write "+short(w.Fset, as), w.Pos(as.Pos()), "precedence table modified at run time")
				}
			}
			return true
		})
	}
	// fallback level: the constant the lookups of the table yield when the key is absent (on paths)
	lowest, lowestOK := int64(0), false
	prefixLevel, prefixOK := int64(0), false
	if pmod := w.prattSSA(); pmod.why == "" {
		vals, at, n := pmod.fallbacks()
		switch {
		case n == 0 || len(vals) == 0:
		case len(vals) > 1:
			r.Bad("R1", fn, fmt.Sprintf("fallback levels %v", vals), w.Pos(at[vals[1]]), "the precedence lookups fall back to different levels")
			lowest, lowestOK = vals[0], true
		default:
			lowest, lowestOK = vals[0], true
			r.Ok("R1", fn, fmt.Sprintf("fallback level %d", lowest), w.Pos(at[lowest]), fmt.Sprintf("the constant every lookup of the table (%d) yields for a token without level", n))
		}
	}
	if !lowestOK {
		r.Lost("R1", "fallback level of the precedence lookups")
		return
	}
	// prefix level: argument of the Pratt entry inside the prefix-operator parser
	pratt := w.prattFn()
	if bang := w.registeredFn("!", false); bang != nil && pratt != nil {
		for _, c := range callsIn(bang.Decl.Body, false) {
			if calleeOf(info, c) == pratt.Obj && len(c.Args) == 1 {
				if v, ok := constInt(info, c.Args[0]); ok {
					prefixLevel, prefixOK = v, true
				}
			}
		}
	}
	if !prefixOK {
		r.Lost("R1", "prefix-operator parser recursing into the Pratt entry with a constant level")
		return
	}
	prev := lowest
	prevName := "fallback"
	for _, g := range c06Groups {
		var lv int64
		have := false
		for _, op := range g {
			v, ok := level[op]
			if !ok {
				r.Bad("R1", fn, "missing "+op, w.Pos(lit.Pos()), "operator has no precedence level (it would never bind)")
				continue
			}
			if have && v != lv {
				r.Bad("R1", fn, "group "+strings.Join(g, " "), w.Pos(lit.Pos()),
					fmt.Sprintf("operators of one precedence class have different levels (%s=%d, %s=%d)", g[0], lv, op, v))
			}
			if !have {
				lv, have = v, true
			}
			if v <= prev {
				r.Bad("R1", fn, "order "+op+" vs "+prevName, w.Pos(lit.Pos()),
					fmt.Sprintf("level of %s (%d) must be above %s (%d)", op, v, prevName, prev))
			} else {
				r.Ok("R1", fn, "level("+op+") > "+prevName, w.Pos(lit.Pos()), fmt.Sprintf("%d > %d", v, prev))
			}
		}
		if have {
			prev, prevName = lv, strings.Join(g, " ")
		}
	}
	if prefixLevel <= prev {
		r.Bad("R1", fn, "prefix level", w.Pos(lit.Pos()), fmt.Sprintf("prefix operators (%d) must bind tighter than * / (%d)", prefixLevel, prev))
	} else {
		r.Ok("R1", fn, "prefix > * /", w.Pos(lit.Pos()), fmt.Sprintf("%d > %d", prefixLevel, prev))
	}
	for _, op := range []string{"(", "["} {
		if v, ok := level[op]; !ok || v <= prefixLevel {
			r.Bad("R1", fn, "call/index level "+op, w.Pos(lit.Pos()), "call and index must bind tighter than prefix operators")
		} else {
			r.Ok("R1", fn, "level("+op+") > prefix", w.Pos(lit.Pos()), fmt.Sprintf("%d > %d", v, prefixLevel))
		}
	}
	known := map[string]bool{"(": true, "[": true}
	for _, g := range c06Groups {
		for _, op := range g {
			known[op] = true
		}
	}
	var keys []string
	for k := range level {
		keys = append(keys, k)
	}
	sort.Strings(keys)
	for _, k := range keys {
		if !known[k] {
			r.Bad("R1", fn, "extra key "+k, w.Pos(lit.Pos()), "token with a precedence level that the property's operator set does not contain")
		}
	}
	// R2
	reg := map[string]bool{}
	for _, g := range w.registrations() {
		if g.Infix {
			reg[g.Token] = true
		}
	}
	for _, k := range keys {
		if reg[k] {
			r.Ok("R2", fn, "infix fn for "+k, w.Pos(lit.Pos()), "registered")
		} else {
			r.Bad("R2", fn, "no infix function for "+k, w.Pos(lit.Pos()), "token has a precedence level but no infix parse function (the expression would end there)")
		}
	}
	var rk []string
	for k := range reg {
		rk = append(rk, k)
	}
	sort.Strings(rk)
	for _, k := range rk {
		if _, ok := level[k]; !ok {
			r.Bad("R2", fn, "no level for registered "+k, w.Pos(lit.Pos()), "infix parse function registered for a token without precedence level (it never binds)")
		}
	}
}

// prattFn: the parser method with a single int parameter returning
// ast.Expression (the Pratt entry point).
func (w *World) prattFn() *FuncInfo {
	for _, f := range w.parserMethods() {
		sig := f.Obj.Type().(*types.Signature)
		if sig.Params().Len() == 1 && sig.Results().Len() == 1 {
			if b, ok := sig.Params().At(0).Type().(*types.Basic); ok && b.Kind() == types.Int {
				if namedIs(sig.Results().At(0).Type(), astPath, "Expression") {
					return f
				}
			}
		}
	}
	return nil
}

// precedenceLookups returns the parser methods that look the given token
// field up in the precedence table.
func (w *World) precedenceLookup(field *types.Var) *FuncInfo {
	info := w.Pkgs["parser"].TypesInfo
	tv, _ := w.precedenceTable()
	for _, f := range w.parserMethods() {
		found := false
		inspectBody(f.Decl.Body, false, func(n ast.Node) bool {
			ix, ok := n.(*ast.IndexExpr)
			if !ok || objOf(info, ix.X) != tv {
				return true
			}
			// index is <recv>.<field>.Type
			if x, tf := fieldOf(info, ix.Index); tf != nil && tf.Name() == "Type" {
				if _, ff := fieldOf(info, x); ff == field {
					found = true
				}
			}
			return true
		})
		if found {
			return f
		}
	}
	return nil
}

func c06Pratt(r *Run) {
	w := r.W
	info := w.Pkgs["parser"].TypesInfo
	pratt := w.prattFn()
	cur, peek, adv := w.parserTokenFields()
	if pratt == nil || cur == nil || peek == nil {
		r.Lost("R3", "Pratt entry point / token fields of the parser")
		return
	}
	peekPrec := w.precedenceLookup(peek)
	curPrec := w.precedenceLookup(cur)
	if peekPrec == nil || curPrec == nil || peekPrec == curPrec {
		r.Lost("R3", "precedence lookups for the current and the peek token")
		return
	}
	r.Ok("R3", peekPrec.Name(), "looks up "+peek.Name(), w.Pos(peekPrec.Decl.Pos()), "table[peek.Type]")
	r.Ok("R3", curPrec.Name(), "looks up "+cur.Name(), w.Pos(curPrec.Decl.Pos()), "table[cur.Type]")
	param := pratt.Obj.Type().(*types.Signature).Params().At(0)
	// the loop
	var loops []*ast.ForStmt
	inspectBody(pratt.Decl.Body, true, func(n ast.Node) bool {
		if f, ok := n.(*ast.ForStmt); ok {
			loops = append(loops, f)
		}
		return true
	})
	okLoop := false
	for _, l := range loops {
		if l.Cond == nil {
			continue
		}
		for _, cj := range conjuncts(l.Cond) {
			be, ok := unparen(cj).(*ast.BinaryExpr)
			if !ok {
				continue
			}
			x, y, op := be.X, be.Y, be.Op
			if isCallTo(info, x, peekPrec.Obj) { // mirrored form
				x, y, op = y, x, flipOp(op)
			}
			if !isCallTo(info, y, peekPrec.Obj) {
				continue
			}
			if objOf(info, x) != param {
				r.Bad("R3", pratt.Name(), "loop "+short(w.Fset, l.Cond), w.Pos(l.Pos()), "the Pratt loop does not compare its own precedence parameter with the peek precedence")
				okLoop = true
				continue
			}
			okLoop = true
			if op == token.LSS {
				r.Ok("R3", pratt.Name(), "loop "+short(w.Fset, cj), w.Pos(l.Pos()), "strict <: equal level ends the right operand (left associative)")
			} else {
				r.Bad("R3", pratt.Name(), "loop "+short(w.Fset, cj), w.Pos(l.Pos()),
					"the Pratt loop must continue only while precedence < peekPrecedence() (strict); '"+op.String()+"' changes associativity")
			}
		}
	}
	if !okLoop {
		r.Lost("R3", "Pratt loop comparing the precedence parameter with the peek precedence")
	}
	// infix parser recursion
	infix := w.registeredFn("+", true)
	if infix == nil {
		r.Lost("R3", "infix parse function registered for '+'")
		return
	}
	for _, g := range c06Groups {
		for _, op := range g {
			if f := w.registeredFn(op, true); f == nil || f.Obj != infix.Obj {
				r.Bad("R3", "parser.newParser", "infix function for "+op, w.Pos(infix.Decl.Pos()), "binary operators are not all parsed by the same infix function")
			}
		}
	}
	var recCall *ast.CallExpr
	for _, c := range callsIn(infix.Decl.Body, false) {
		if calleeOf(info, c) == pratt.Obj {
			recCall = c
		}
	}
	if recCall == nil || len(recCall.Args) != 1 {
		r.Lost("R3", "recursive call of the Pratt entry in the infix parser")
		return
	}
	arg := unparen(recCall.Args[0])
	argObj := objOf(info, arg)
	okRec := false
	if argObj != nil {
		// single definition: v := p.curPrecedence(), located before the advance call
		var def *ast.AssignStmt
		ndefs := 0
		var advPos token.Pos
		inspectBody(infix.Decl.Body, false, func(n ast.Node) bool {
			switch s := n.(type) {
			case *ast.AssignStmt:
				for i, l := range s.Lhs {
					if objOf(info, l) == argObj {
						ndefs++
						if len(s.Rhs) == len(s.Lhs) && isCallTo(info, s.Rhs[i], curPrec.Obj) {
							def = s
						}
					}
				}
			case *ast.IncDecStmt:
				if objOf(info, s.X) == argObj {
					ndefs++
				}
			case *ast.CallExpr:
				if adv != nil && calleeOf(info, s) == adv.Obj && !advPos.IsValid() {
					advPos = s.Pos()
				}
			}
			return true
		})
		if def != nil && ndefs == 1 && advPos.IsValid() && def.Pos() < advPos && advPos < recCall.Pos() {
			okRec = true
		}
	}
	if okRec {
		r.Ok("R3", infix.Name(), "recursion "+short(w.Fset, recCall), w.Pos(recCall.Pos()), "right operand parsed at the operator's own level, read before advancing")
	} else {
		r.Bad("R3", infix.Name(), "recursion "+short(w.Fset, recCall), w.Pos(recCall.Pos()),
			"the infix parser must parse its right operand at exactly the current operator's level (a local assigned once from the current-token precedence lookup before the token cursor advances)")
	}
}

func conjuncts(e ast.Expr) []ast.Expr {
	e = unparen(e)
	if be, ok := e.(*ast.BinaryExpr); ok && be.Op == token.LAND {
		return append(conjuncts(be.X), conjuncts(be.Y)...)
	}
	return []ast.Expr{e}
}

func disjuncts(e ast.Expr) []ast.Expr {
	e = unparen(e)
	if be, ok := e.(*ast.BinaryExpr); ok && be.Op == token.LOR {
		return append(disjuncts(be.X), disjuncts(be.Y)...)
	}
	return []ast.Expr{e}
}

func isCallTo(info *types.Info, e ast.Expr, f *types.Func) bool {
	c, ok := unparen(e).(*ast.CallExpr)
	return ok && f != nil && calleeOf(info, c) == f
}

// ---- R4 ---------------------------------------------------------------------

// opTable describes one per-type operator function.
type opTable struct {
	fn     *FuncInfo
	l, r   *types.Var
	op     *types.Var
	kind   string // int, float, string, bool, nil
	labels []string
}

func (w *World) operatorTables() (tabs []opTable, infixEval *FuncInfo) {
	infixEval = w.evalMethod("InfixExpression")
	if infixEval == nil {
		return nil, nil
	}
	info := w.Pkgs[""].TypesInfo
	seen := map[*types.Func]bool{}
	for _, c := range callsIn(infixEval.Decl.Body, false) {
		cal := calleeOf(info, c)
		fi := w.FuncOf(cal)
		if fi == nil || seen[cal] || !isMethodOf(fi, w.compilerType()) {
			continue
		}
		sig := cal.Type().(*types.Signature)
		if sig.Params().Len() != 3 || sig.Results().Len() != 2 {
			continue
		}
		if b, ok := sig.Params().At(2).Type().(*types.Basic); !ok || b.Kind() != types.String {
			continue
		}
		seen[cal] = true
		t := opTable{fn: fi, l: sig.Params().At(0), r: sig.Params().At(1), op: sig.Params().At(2)}
		switch lt := sig.Params().At(0).Type().(type) {
		case *types.Basic:
			switch lt.Kind() {
			case types.Int:
				t.kind = "int"
			case types.Float64:
				t.kind = "float"
			case types.String:
				t.kind = "string"
			}
		}
		tabs = append(tabs, t)
	}
	return
}

func c06OperatorTables(r *Run) {
	w := r.W
	info := w.Pkgs[""].TypesInfo
	tabs, infixEval := w.operatorTables()
	if infixEval == nil || len(tabs) < 5 {
		r.Lost("R4", "infix evaluator and its per-type operator functions")
		return
	}
	truthy := w.truthyMethod()
	want := map[string][]string{
		"int":    {"+", "-", "*", "/", "<", ">", "<=", ">=", "==", "!="},
		"float":  {"+", "-", "*", "/", "<", ">", "<=", ">=", "==", "!="},
		"string": {"+", "<", ">", "<=", ">=", "==", "!=", "~="},
	}
	kindsSeen := map[string]bool{}
	for _, t := range tabs {
		if t.kind == "" {
			// classify the interface-typed tables by their labels below
		}
		var sw *ast.SwitchStmt
		for _, st := range t.fn.Decl.Body.List {
			if s, ok := st.(*ast.SwitchStmt); ok && objOf(info, s.Tag) == t.op {
				sw = s
			}
		}
		if sw == nil {
			r.Bad("R4", t.fn.Name(), "no switch on the operator parameter", w.Pos(t.fn.Decl.Pos()), "operator function does not dispatch on its operator parameter with a switch; the label/operator agreement cannot be read")
			continue
		}
		if t.kind == "" && !anyArmBinary(info, sw) {
			// not a table over the property's operand kinds (e.g. the slice
			// append operator): outside R4
			r.Note("operator function %s is not a label->binary-expression table; outside R4", t.fn.Name())
			continue
		}
		kindsSeen[t.kind] = true
		// operand identities: l, r, or single-assignment locals derived from them
		lObjs := map[types.Object]string{t.l: "l"}
		rObjs := map[types.Object]string{t.r: "r"}
		for _, st := range t.fn.Decl.Body.List {
			as, ok := st.(*ast.AssignStmt)
			if !ok || as.Tok != token.DEFINE || len(as.Lhs) != 1 || len(as.Rhs) != 1 {
				continue
			}
			call, ok := as.Rhs[0].(*ast.CallExpr)
			if !ok || len(call.Args) != 1 {
				continue
			}
			cal := calleeOf(info, call)
			derived := funcIs(cal, "fmt", "Sprint") || (truthy != nil && cal == truthy.Obj)
			if !derived {
				continue
			}
			src := objOf(info, call.Args[0])
			o := objOf(info, as.Lhs[0])
			if src == t.l {
				lObjs[o] = "f(l)"
			} else if src == t.r {
				rObjs[o] = "f(r)"
			}
		}
		seenLabels := map[string]bool{}
		hasDefaultErr := false
		for _, cs := range sw.Body.List {
			cc := cs.(*ast.CaseClause)
			if cc.List == nil {
				hasDefaultErr = clauseReturnsError(info, cc.Body)
				if !hasDefaultErr {
					r.Bad("R4", t.fn.Name(), "default arm", w.Pos(cc.Pos()), "unknown operator must be an error")
				}
				continue
			}
			for _, le := range cc.List {
				label, ok := constString(info, le)
				if !ok {
					r.Bad("R4", t.fn.Name(), "label "+short(w.Fset, le), w.Pos(le.Pos()), "operator label is not a constant")
					continue
				}
				seenLabels[label] = true
				c06CheckArm(r, t, label, cc, lObjs, rObjs)
			}
		}
		if !hasDefaultErr {
			// fall-through return after the switch
			rets := returnsIn(t.fn.Decl.Body)
			ok := false
			if len(rets) > 0 {
				last := rets[len(rets)-1]
				if last.Pos() > sw.End() && len(last.Results) == 2 && isNilIdent(info, last.Results[0]) && !isNilIdent(info, last.Results[1]) {
					ok = true
				}
			}
			if ok {
				r.Ok("R4", t.fn.Name(), "fall-through is an error", w.Pos(sw.End()), "return nil, <error>")
			} else {
				r.Bad("R4", t.fn.Name(), "fall-through", w.Pos(sw.End()), "an operator the table does not know must yield an error")
			}
		} else {
			r.Ok("R4", t.fn.Name(), "default arm is an error", w.Pos(sw.Pos()), "default: return nil, <error>")
		}
		if wl, ok := want[t.kind]; ok {
			for _, l := range wl {
				if !seenLabels[l] {
					r.Bad("R4", t.fn.Name(), "missing label "+l, w.Pos(sw.Pos()), "operator "+l+" is not handled for "+t.kind+" operands")
				}
			}
		}
	}
	for _, k := range []string{"int", "float", "string"} {
		if !kindsSeen[k] {
			r.Lost("R4", "operator function for "+k+" operands")
		}
	}
	// dispatch: every call of an operator function from the infix evaluator
	// passes (left-derived, right-derived, node.Operator) in that order
	c06Dispatch(r, tabs, infixEval)
}

func clauseReturnsError(info *types.Info, body []ast.Stmt) bool {
	if len(body) == 0 {
		return false
	}
	ret, ok := body[len(body)-1].(*ast.ReturnStmt)
	return ok && len(ret.Results) == 2 && isNilIdent(info, ret.Results[0]) && !isNilIdent(info, ret.Results[1])
}

func c06CheckArm(r *Run, t opTable, label string, cc *ast.CaseClause, lObjs, rObjs map[types.Object]string) {
	w := r.W
	info := w.Pkgs[""].TypesInfo
	fn := t.fn.Name()
	construct := fmt.Sprintf("case %q", label)
	if len(cc.Body) == 0 {
		r.Bad("R4", fn, construct, w.Pos(cc.Pos()), "empty arm")
		return
	}
	last, ok := cc.Body[len(cc.Body)-1].(*ast.ReturnStmt)
	if !ok || len(last.Results) != 2 {
		r.Bad("R4", fn, construct, w.Pos(cc.Pos()), "arm does not end in 'return <value>, nil'")
		return
	}
	if !isNilIdent(info, last.Results[1]) {
		r.Bad("R4", fn, construct, w.Pos(last.Pos()), "arm's final return carries an error")
		return
	}
	if label == "~=" {
		// x, err := regexp.Compile(<right>); ...; return x.MatchString(<left>), nil
		call, ok := unparen(last.Results[0]).(*ast.CallExpr)
		good := false
		if ok && len(call.Args) == 1 {
			if cal := calleeOf(info, call); methodIs(cal, "regexp", "Regexp", "MatchString") {
				if _, isL := lObjs[objOf(info, call.Args[0])]; isL {
					// the pattern must come from the right operand
					for _, st := range cc.Body {
						if as, ok := st.(*ast.AssignStmt); ok && len(as.Rhs) == 1 {
							if cc2, ok := as.Rhs[0].(*ast.CallExpr); ok && len(cc2.Args) == 1 {
								if c2 := calleeOf(info, cc2); funcIs(c2, "regexp", "Compile") || funcIs(c2, "regexp", "MustCompile") {
									if _, isR := rObjs[objOf(info, cc2.Args[0])]; isR {
										good = true
									}
								}
							}
						}
					}
				}
			}
		}
		if good {
			r.Ok("R4", fn, construct, w.Pos(last.Pos()), "regexp.Compile(right).MatchString(left)")
		} else {
			r.Bad("R4", fn, construct, w.Pos(last.Pos()), "~= must compile the RIGHT operand as pattern and match the LEFT operand")
		}
		return
	}
	goOp, known := goOpFor[label]
	if !known {
		r.Bad("R4", fn, construct, w.Pos(cc.Pos()), "label is not an operator of the language")
		return
	}
	be, ok := unparen(last.Results[0]).(*ast.BinaryExpr)
	if !ok {
		r.Bad("R4", fn, construct+" returns "+short(w.Fset, last.Results[0]), w.Pos(last.Pos()), "arm must return the Go binary expression for its label")
		return
	}
	_, lx := lObjs[objOf(info, be.X)]
	_, ry := rObjs[objOf(info, be.Y)]
	if be.Op != goOp {
		if t.kind == "" && label == "+" && be.Op == token.LAND {
			// bool + bool is defined as logical and by this table; outside the property's operand kinds
			r.Ok("R4", fn, construct, w.Pos(last.Pos()), "bool '+' = and (not an operator the property defines on bools)")
			return
		}
		r.Bad("R4", fn, construct+" returns "+short(w.Fset, be), w.Pos(last.Pos()),
			fmt.Sprintf("label %q but Go operator %q", label, be.Op.String()))
		return
	}
	if !lx || !ry {
		r.Bad("R4", fn, construct+" returns "+short(w.Fset, be), w.Pos(last.Pos()), "operands must be (left, right) in parameter order")
		return
	}
	if label == "/" && (t.kind == "int" || t.kind == "float") {
		// zero-divisor guard: an earlier statement 'if r == 0 { return nil, err }'
		guard := false
		for _, st := range cc.Body[:len(cc.Body)-1] {
			ifs, ok := st.(*ast.IfStmt)
			if !ok || ifs.Init != nil || ifs.Else != nil {
				continue
			}
			c, ok := unparen(ifs.Cond).(*ast.BinaryExpr)
			if !ok || c.Op != token.EQL {
				continue
			}
			x, y := c.X, c.Y
			if _, isR := rObjs[objOf(info, x)]; !isR {
				x, y = y, x
			}
			_, isR := rObjs[objOf(info, x)]
			tv := info.Types[y]
			isZero := tv.Value != nil && (tv.Value.ExactString() == "0")
			if isR && isZero && clauseReturnsError(info, ifs.Body.List) {
				guard = true
			}
		}
		if !guard {
			r.Bad("R4", fn, construct+" zero divisor", w.Pos(last.Pos()), "division must be dominated by 'if r == 0 { return nil, error }'")
			return
		}
	}
	r.Ok("R4", fn, construct, w.Pos(last.Pos()), "returns l "+be.Op.String()+" r")
}

func c06Dispatch(r *Run, tabs []opTable, infixEval *FuncInfo) {
	w := r.W
	info := w.Pkgs[""].TypesInfo
	isTab := map[*types.Func]bool{}
	for _, t := range tabs {
		isTab[t.fn.Obj] = true
	}
	nodeParam := infixEval.Obj.Type().(*types.Signature).Params().At(0)
	lroots, rroots := infixOperandRoots(w, infixEval)
	if lroots == nil {
		r.Lost("R4", "left/right operand evaluations in the infix evaluator")
		return
	}
	for _, c := range callsIn(infixEval.Decl.Body, false) {
		cal := calleeOf(info, c)
		if !isTab[cal] || len(c.Args) != 3 {
			continue
		}
		okL := derivesFrom(info, infixEval.Decl.Body, c.Args[0], lroots)
		okR := derivesFrom(info, infixEval.Decl.Body, c.Args[1], rroots)
		okOp := false
		if x, f := fieldOf(info, c.Args[2]); f != nil && f.Name() == "Operator" && objOf(info, x) == nodeParam {
			okOp = true
		}
		con := "dispatch " + short(w.Fset, c)
		if okL && okR && okOp {
			r.Ok("R4", infixEval.Name(), con, w.Pos(c.Pos()), "(left, right, node.Operator)")
		} else {
			r.Bad("R4", infixEval.Name(), con, w.Pos(c.Pos()), "operator function must receive (left value, right value, the node's operator) in this order")
		}
	}
}

// infixOperandRoots finds the variables that hold the evaluated left and right operand.
func infixOperandRoots(w *World, f *FuncInfo) (l, r map[types.Object]bool) {
	info := w.Pkgs[""].TypesInfo
	nodeParam := f.Obj.Type().(*types.Signature).Params().At(0)
	l, r = map[types.Object]bool{}, map[types.Object]bool{}
	inspectBody(f.Decl.Body, true, func(n ast.Node) bool {
		as, ok := n.(*ast.AssignStmt)
		if !ok || len(as.Rhs) != 1 || len(as.Lhs) < 1 {
			return true
		}
		call, ok := as.Rhs[0].(*ast.CallExpr)
		if !ok || len(call.Args) != 1 {
			return true
		}
		x, fld := fieldOf(info, call.Args[0])
		if fld == nil || objOf(info, x) != nodeParam {
			return true
		}
		switch fld.Name() {
		case "Left":
			l[objOf(info, as.Lhs[0])] = true
		case "Right":
			r[objOf(info, as.Lhs[0])] = true
		}
		return true
	})
	if len(l) == 0 || len(r) == 0 {
		return nil, nil
	}
	return
}

// derivesFrom: e is a root variable, or a conversion of one, or a variable
// bound from a root by a type switch / comma-ok assertion / conversion.
func derivesFrom(info *types.Info, body ast.Node, e ast.Expr, roots map[types.Object]bool) bool {
	e = unparen(e)
	if c, ok := e.(*ast.CallExpr); ok && len(c.Args) == 1 {
		if _, isConv := isConversion(info, c); isConv {
			return derivesFrom(info, body, c.Args[0], roots)
		}
	}
	o := objOf(info, e)
	if o == nil {
		if id, ok := e.(*ast.Ident); ok {
			// implicit object of a type-switch clause
			o = info.Uses[id]
		}
	}
	if o == nil {
		return false
	}
	if roots[o] {
		return true
	}
	found := false
	ast.Inspect(body, func(n ast.Node) bool {
		switch s := n.(type) {
		case *ast.TypeSwitchStmt:
			as, ok := s.Assign.(*ast.AssignStmt)
			if !ok || len(as.Rhs) != 1 {
				return true
			}
			ta, ok := as.Rhs[0].(*ast.TypeAssertExpr)
			if !ok || !roots[objOf(info, ta.X)] {
				return true
			}
			for _, cl := range s.Body.List {
				if info.Implicits[cl] == o {
					found = true
				}
			}
		case *ast.AssignStmt:
			if len(s.Rhs) == 1 && len(s.Lhs) >= 1 && objOf(info, s.Lhs[0]) == o {
				if ta, ok := s.Rhs[0].(*ast.TypeAssertExpr); ok && roots[objOf(info, ta.X)] {
					found = true
				}
			}
		}
		return true
	})
	return found
}

// ---- R5 ---------------------------------------------------------------------

func c06ShortCircuit(r *Run) {
	w := r.W
	info := w.Pkgs[""].TypesInfo
	f := w.evalMethod("InfixExpression")
	truthy := w.truthyMethod()
	if f == nil || truthy == nil {
		r.Lost("R5", "infix evaluator / truthiness predicate")
		return
	}
	nodeParam := f.Obj.Type().(*types.Signature).Params().At(0)
	lroots, _ := infixOperandRoots(w, f)
	// position of the right operand evaluation among the top-level statements
	idx := -1
	for i, st := range f.Decl.Body.List {
		found := false
		inspectBody(st, true, func(n ast.Node) bool {
			if c, ok := n.(*ast.CallExpr); ok && len(c.Args) == 1 {
				if x, fld := fieldOf(info, c.Args[0]); fld != nil && fld.Name() == "Right" && objOf(info, x) == nodeParam {
					found = true
				}
			}
			return true
		})
		if found {
			if idx >= 0 {
				r.Bad("R5", f.Name(), "second evaluation of node.Right", w.Pos(st.Pos()), "the right operand is evaluated more than once")
			} else {
				idx = i
			}
		}
	}
	if idx < 0 {
		r.Lost("R5", "evaluation of node.Right as a top-level statement of the infix evaluator")
		return
	}
	// collect guards before idx: (cond, body) pairs from if statements and tagless switch clauses
	type guard struct {
		cond ast.Expr
		body []ast.Stmt
		pos  token.Pos
	}
	var guards []guard
	for _, st := range f.Decl.Body.List[:idx] {
		switch s := st.(type) {
		case *ast.IfStmt:
			if s.Init == nil && s.Else == nil {
				guards = append(guards, guard{s.Cond, s.Body.List, s.Pos()})
			}
		case *ast.SwitchStmt:
			if s.Tag == nil && s.Init == nil {
				for _, c := range s.Body.List {
					cc := c.(*ast.CaseClause)
					for _, e := range cc.List {
						guards = append(guards, guard{e, cc.Body, cc.Pos()})
					}
				}
			}
		}
	}
	need := map[string]bool{"&&": false, "||": false}
	for _, g := range guards {
		cj := conjuncts(g.cond)
		if len(cj) != 2 {
			continue
		}
		var op string
		var tr ast.Expr
		for _, e := range cj {
			if be, ok := unparen(e).(*ast.BinaryExpr); ok && be.Op == token.EQL {
				x, y := be.X, be.Y
				if _, isC := constString(info, x); isC {
					x, y = y, x
				}
				if xx, fld := fieldOf(info, x); fld != nil && fld.Name() == "Operator" && objOf(info, xx) == nodeParam {
					if s, ok := constString(info, y); ok {
						op = s
						continue
					}
				}
			}
			tr = e
		}
		if op != "&&" && op != "||" || tr == nil {
			continue
		}
		neg := false
		if u, ok := unparen(tr).(*ast.UnaryExpr); ok && u.Op == token.NOT {
			neg = true
			tr = u.X
		}
		call, ok := unparen(tr).(*ast.CallExpr)
		if !ok || calleeOf(info, call) != truthy.Obj || len(call.Args) != 1 || !lroots[objOf(info, call.Args[0])] {
			continue
		}
		// body: return <const bool>, nil
		if len(g.body) != 1 {
			continue
		}
		ret, ok := g.body[0].(*ast.ReturnStmt)
		if !ok || len(ret.Results) != 2 || !isNilIdent(info, ret.Results[1]) {
			continue
		}
		tv := info.Types[ret.Results[0]]
		if tv.Value == nil {
			continue
		}
		val := tv.Value.ExactString()
		con := fmt.Sprintf("%s with %struthy left returns %s", op, map[bool]string{true: "non-", false: ""}[neg], val)
		switch {
		case op == "&&" && neg && val == "false", op == "||" && !neg && val == "true":
			need[op] = true
			r.Ok("R5", f.Name(), con, w.Pos(g.pos), "dominates the evaluation of node.Right")
		default:
			r.Bad("R5", f.Name(), con, w.Pos(g.pos), "short-circuit arm returns the wrong constant or tests the wrong polarity")
		}
	}
	for _, op := range []string{"&&", "||"} {
		if !need[op] {
			r.Bad("R5", f.Name(), "no short-circuit for "+op+" before node.Right is evaluated", w.Pos(f.Decl.Body.List[idx].Pos()),
				"the right operand of "+op+" is evaluated although the left operand already decides the result")
		}
	}
}

// anyArmBinary: some labelled arm of the switch ends in 'return <binary expr>, nil'
// (this is what makes a function an operator table in the sense of R4).
func anyArmBinary(info *types.Info, sw *ast.SwitchStmt) bool {
	for _, cs := range sw.Body.List {
		cc := cs.(*ast.CaseClause)
		if cc.List == nil || len(cc.Body) == 0 {
			continue
		}
		ret, ok := cc.Body[len(cc.Body)-1].(*ast.ReturnStmt)
		if !ok || len(ret.Results) != 2 {
			continue
		}
		if _, ok := unparen(ret.Results[0]).(*ast.BinaryExpr); ok {
			return true
		}
	}
	return false
}
