package main

import (
	"fmt"
	"go/ast"
	"go/token"
	"go/types"
)

func init() {
	register("C09", checkC09, "which name the string-keyed rebinding of the index-then-member path binds (C11); behaviour of application helpers that keep contexts")
}

func checkC09(r *Run) {
	r.Rule("R1", "every function that installs a new current scope saves the old one in a local, installs a fresh child (or, in BlockWith, the context it was given) and restores the saved local in a defer placed before the install", 1)
	r.Rule("R2", "Context.New passes a fresh empty map and the receiver itself as outer; the constructor stores exactly those", 1)
	r.Rule("R3", "Context.Set writes only the receiver's own map; let and assignment evaluate to nothing and call Set on the current scope", 1)
	r.Rule("R4", "helper scopes: partial replaces its context by a child before any Set and renders with it; contentOf and the contentFor closure create the child per call, set the data on it and hand it to BlockWith; the only Set on the caller's context is the contentFor registration", 1)
	r.Rule("R5", "user-function parameters are bound in the installed child scope", 1)
	r.Rule("R6", "outer variables stay readable inside: a child scope injects a default helper only when the name is absent from the whole outer chain (Has walks the chain)", 1)
	helperInjectionRuleSSA(r, "R6")
	scopeDisciplineRuleSSA(r, "R1")
	freshChildRule(r, "R2")
	setLocalRule(r, "R3")
	helperScopeRule(r, "R4")
	paramsInChildRuleSSA(r, "R5")
}

// ctxStores collects, per top-level function, the stores to the evaluator's
// current-scope field.
type ctxStore struct {
	as       ast.Node // the assignment (or, for a named restore helper, the defer statement)
	rhs      ast.Expr
	deferred *ast.DeferStmt // non-nil when inside `defer func(){...}()` or `defer restoreHelper(x)`
	lit      *ast.FuncLit
	helper   bool // restored through a named helper: the argument is evaluated at defer time
}

// restoreHelpers: functions whose whole body is `<x>.ctx = <parameter>`; a
// `defer helper(v)` is the named form of `defer func() { x.ctx = v }()`.
func (w *World) restoreHelpers() map[*types.Func]int {
	out := map[*types.Func]int{}
	ctxF := w.compilerField("ctx")
	for _, f := range w.Funcs("") {
		if len(f.Decl.Body.List) != 1 {
			continue
		}
		as, ok := f.Decl.Body.List[0].(*ast.AssignStmt)
		if !ok || len(as.Lhs) != 1 || len(as.Rhs) != 1 {
			continue
		}
		if _, fld := fieldOf(f.Pkg.TypesInfo, as.Lhs[0]); fld == nil || fld != ctxF {
			continue
		}
		sig := f.Obj.Type().(*types.Signature)
		for i := 0; i < sig.Params().Len(); i++ {
			if objOf(f.Pkg.TypesInfo, as.Rhs[0]) == sig.Params().At(i) {
				out[f.Obj] = i
			}
		}
	}
	return out
}

func (w *World) ctxStoresOf(f *FuncInfo) []ctxStore {
	info := f.Pkg.TypesInfo
	ctxF := w.compilerField("ctx")
	helpers := w.restoreHelpers()
	var out []ctxStore
	if _, isHelper := helpers[f.Obj]; isHelper {
		return nil
	}
	var visit func(n ast.Node, d *ast.DeferStmt, lit *ast.FuncLit)
	visit = func(n ast.Node, d *ast.DeferStmt, lit *ast.FuncLit) {
		ast.Inspect(n, func(m ast.Node) bool {
			switch x := m.(type) {
			case *ast.DeferStmt:
				if fl, ok := x.Call.Fun.(*ast.FuncLit); ok {
					visit(fl.Body, x, fl)
					return false
				}
				if idx, ok := helpers[calleeOf(info, x.Call)]; ok && idx < len(x.Call.Args) {
					out = append(out, ctxStore{x, x.Call.Args[idx], x, nil, true})
					return false
				}
			case *ast.FuncLit:
				if m != n {
					visit(x.Body, nil, x)
					return false
				}
			case *ast.AssignStmt:
				for i, l := range x.Lhs {
					if _, fld := fieldOf(info, l); fld != nil && fld == ctxF {
						var rhs ast.Expr
						if len(x.Rhs) == len(x.Lhs) {
							rhs = x.Rhs[i]
						}
						out = append(out, ctxStore{x, rhs, d, lit, false})
					}
				}
			}
			return true
		})
	}
	visit(f.Decl.Body, nil, nil)
	return out
}

func scopePairingRule(r *Run, rule string) {
	w := r.W
	ctxF := w.compilerField("ctx")
	if ctxF == nil {
		r.Lost(rule, "current-scope field of the evaluator")
		return
	}
	for _, f := range w.Funcs("") {
		info := f.Pkg.TypesInfo
		stores := w.ctxStoresOf(f)
		if len(stores) == 0 {
			continue
		}
		var installs, restores []ctxStore
		for _, s := range stores {
			if s.deferred != nil {
				restores = append(restores, s)
			} else if s.lit != nil {
				r.Bad(rule, f.Name(), "scope pointer written inside a function literal", w.Pos(s.as.Pos()), "the current scope is changed from a closure that is not a deferred restore")
			} else {
				installs = append(installs, s)
			}
		}
		// pair every install with a restore in the same block
		used := map[*ast.DeferStmt]bool{}
		for _, in := range installs {
			con := "install " + short(w.Fset, in.as)
			blk, _ := w.Parent(in.as).(*ast.BlockStmt)
			var pair *ctxStore
			for i := range restores {
				rs := &restores[i]
				if used[rs.deferred] {
					continue
				}
				if pb, _ := w.Parent(rs.deferred).(*ast.BlockStmt); pb == blk && blk != nil && rs.deferred.Pos() < in.as.Pos() {
					pair = rs
				}
			}
			if pair == nil {
				r.Bad(rule, f.Name(), con+" without deferred restore", w.Pos(in.as.Pos()),
					"the current scope is replaced but no 'defer func() { <scope> = <saved> }()' precedes the install in the same block: an error return or a later exit leaves the evaluator in the inner scope")
				continue
			}
			used[pair.deferred] = true
			if pair.helper {
				// defer restore(<field itself>): the argument is evaluated now, i.e. it IS the saved value
				if _, fld := fieldOf(info, pair.rhs); fld == ctxF {
					okInstall, how := installIsFresh(w, info, f, in.rhs, nil, ctxF)
					if okInstall {
						r.Ok(rule, f.Name(), con, w.Pos(in.as.Pos()), "old scope captured as the argument of a deferred restore helper; "+how)
					} else {
						r.Bad(rule, f.Name(), con, w.Pos(in.as.Pos()), "the installed scope must be a fresh child of the saved scope (<saved>.New()) or, in BlockWith, the context passed by the caller")
					}
					continue
				}
			}
			// the restore closure: exactly one statement, restoring a local
			saved := objOf(info, pair.rhs)
			if (!pair.helper && len(pair.lit.Body.List) != 1) || saved == nil {
				r.Bad(rule, f.Name(), "restore "+short(w.Fset, pair.as), w.Pos(pair.as.Pos()), "the deferred restore must assign the saved local back, and nothing else")
				continue
			}
			if _, isVar := saved.(*types.Var); !isVar || saved.Parent() == nil || saved.Parent() == f.Pkg.Types.Scope() {
				r.Bad(rule, f.Name(), "restore "+short(w.Fset, pair.as), w.Pos(pair.as.Pos()), "the restored value is not a local saved on entry")
				continue
			}
			// the saved local: defined once, from the scope field (possibly through a comma-ok assertion), before the defer
			nDefs := 0
			goodDef := false
			inspectBody(f.Decl.Body, false, func(n ast.Node) bool {
				as, ok := n.(*ast.AssignStmt)
				if !ok {
					return true
				}
				for i, l := range as.Lhs {
					if objOf(info, l) != saved {
						continue
					}
					nDefs++
					if as.Pos() > pair.deferred.Pos() {
						continue
					}
					_ = pair
					var rhs ast.Expr
					if len(as.Rhs) == len(as.Lhs) {
						rhs = as.Rhs[i]
					} else if len(as.Rhs) == 1 && i == 0 {
						rhs = as.Rhs[0]
					}
					if ta, ok := unparen(rhs).(*ast.TypeAssertExpr); ok {
						rhs = ta.X
					}
					if _, fld := fieldOf(info, rhs); fld == ctxF {
						goodDef = true
					}
				}
				return true
			})
			if nDefs != 1 || !goodDef {
				r.Bad(rule, f.Name(), "saved scope "+saved.Name(), w.Pos(pair.as.Pos()),
					"the value restored on exit must be a local assigned exactly once, from the current-scope field, before the defer")
				continue
			}
			// the installed value
			okInstall, how := installIsFresh(w, info, f, in.rhs, saved, ctxF)
			if !okInstall {
				r.Bad(rule, f.Name(), con, w.Pos(in.as.Pos()), "the installed scope must be a fresh child of the saved scope (<saved>.New()) or, in BlockWith, the context passed by the caller")
				continue
			}
			r.Ok(rule, f.Name(), con, w.Pos(in.as.Pos()), "saved in "+saved.Name()+", restored by defer; "+how)
		}
		for _, rs := range restores {
			if !used[rs.deferred] {
				r.Bad(rule, f.Name(), "deferred scope write without install "+short(w.Fset, rs.as), w.Pos(rs.as.Pos()), "a deferred write of the scope pointer that does not belong to a save/install/restore triple")
			}
		}
	}
}

func installIsFresh(w *World, info *types.Info, f *FuncInfo, rhs ast.Expr, saved types.Object, ctxF *types.Var) (bool, string) {
	if call, ok := unparen(rhs).(*ast.CallExpr); ok {
		sel, ok := unparen(call.Fun).(*ast.SelectorExpr)
		if ok && len(call.Args) == 0 {
			cal := calleeOf(info, call)
			if cal != nil && cal.Name() == "New" {
				if objOf(info, sel.X) == saved {
					return true, "fresh child of the saved scope"
				}
				if _, fld := fieldOf(info, sel.X); fld == ctxF {
					return true, "fresh child of the current scope"
				}
			}
		}
		return false, ""
	}
	// BlockWith: a local obtained from the function's own context parameter
	if o := objOf(info, rhs); o != nil {
		sig := f.Obj.Type().(*types.Signature)
		fromParam := false
		inspectBody(f.Decl.Body, false, func(n ast.Node) bool {
			as, ok := n.(*ast.AssignStmt)
			if !ok || len(as.Rhs) != 1 {
				return true
			}
			if objOf(info, as.Lhs[0]) != o {
				return true
			}
			e := unparen(as.Rhs[0])
			if ta, ok := e.(*ast.TypeAssertExpr); ok {
				e = ta.X
			}
			for i := 0; i < sig.Params().Len(); i++ {
				if objOf(info, e) == sig.Params().At(i) && namedIs(sig.Params().At(i).Type(), hctxPath, "Context") {
					fromParam = true
				}
			}
			return true
		})
		if fromParam {
			return true, "the context handed in by the caller"
		}
	}
	return false, ""
}

// ---- R2 ---------------------------------------------------------------------

func freshChildRule(r *Run, rule string) {
	w := r.W
	info := w.Pkgs[""].TypesInfo
	ct := w.NamedType("", "Context")
	if ct == nil {
		r.Lost(rule, "Context type")
		return
	}
	var newM *FuncInfo
	for _, f := range w.Funcs("") {
		if isMethodOf(f, ct) && f.Decl.Name.Name == "New" {
			newM = f
		}
	}
	if newM == nil {
		r.Lost(rule, "Context.New")
		return
	}
	bld := w.ctxBuilder(newM, 0)
	if bld == nil {
		r.Lost(rule, "construction of the child context in Context.New (one literal or one call of a constructor)")
		return
	}
	con := "child construction " + short(w.Fset, bld.origin)
	if bld.data.kind == "freshmap" && bld.outer.kind == "recv" {
		r.Ok(rule, newM.Name(), con, w.Pos(bld.origin.Pos()), "fresh empty map; outer = the receiver")
	} else {
		r.Bad(rule, newM.Name(), con, w.Pos(bld.origin.Pos()),
			fmt.Sprintf("a child context must get a fresh empty map of its own and the receiver itself as its outer context (data: %s, outer: %s)", bld.data, bld.outer))
	}
	// New must not do anything else: no other call, no store through the receiver
	extra := 0
	for _, c := range callsIn(newM.Decl.Body, false) {
		if ast.Expr(c) != bld.origin && builtinName(info, c) == "" {
			extra++
		}
	}
	if extra > 0 {
		r.Bad(rule, newM.Name(), fmt.Sprintf("%d further call(s)", extra), w.Pos(newM.Decl.Pos()), "Context.New is expected to only construct and return the child")
	}
	for _, ret := range returnsIn(newM.Decl.Body) {
		okRet := false
		if len(ret.Results) == 1 {
			e := unparen(ret.Results[0])
			if u, isU := e.(*ast.UnaryExpr); isU {
				e = unparen(u.X)
			}
			okRet = e == bld.origin || (bld.newVar != nil && objOf(info, e) == bld.newVar)
		}
		if !okRet {
			r.Bad(rule, newM.Name(), "return "+short(w.Fset, ret), w.Pos(ret.Pos()), "Context.New must return the freshly built child on every path (never the receiver or a shared context)")
		}
	}
	// every constructor on the way stores exactly what it is given
	for g, depth := newM, 0; g != nil && depth < 5; depth++ {
		b := w.ctxBuilder(g, 0)
		if b == nil {
			break
		}
		call, isCall := b.origin.(*ast.CallExpr)
		if !isCall {
			break
		}
		next := w.FuncOf(calleeOf(g.Pkg.TypesInfo, call))
		if next == nil {
			break
		}
		nb := w.ctxBuilder(next, 0)
		if nb == nil {
			break
		}
		ccon := "context built from (" + nb.data.String() + ", " + nb.outer.String() + ")"
		if nb.data.kind == "param" && nb.outer.kind == "param" && nb.data.idx != nb.outer.idx {
			r.Ok(rule, next.Name(), ccon, w.Pos(next.Decl.Pos()), "data: <data parameter>, outer: <outer parameter>")
		} else {
			r.Bad(rule, next.Name(), "context literal", w.Pos(next.Decl.Pos()), "the constructor must store exactly the map and the outer context it was given")
		}
		g = next
	}
}

// ---- R3 ---------------------------------------------------------------------

func setLocalRule(r *Run, rule string) {
	w := r.W
	info := w.Pkgs[""].TypesInfo
	ct := w.NamedType("", "Context")
	if ct == nil {
		r.Lost(rule, "Context type")
		return
	}
	for _, f := range w.Funcs("") {
		if !isMethodOf(f, ct) || f.Decl.Name.Name != "Set" {
			continue
		}
		recv := f.Obj.Type().(*types.Signature).Recv()
		sig := f.Obj.Type().(*types.Signature)
		nStores := 0
		ok := true
		inspectBody(f.Decl.Body, false, func(n ast.Node) bool {
			switch x := n.(type) {
			case *ast.AssignStmt:
				for i, l := range x.Lhs {
					ix, isIx := l.(*ast.IndexExpr)
					if !isIx {
						continue
					}
					nStores++
					b, fld := fieldOf(info, ix.X)
					if fld == nil || !isMapStringIface(fld.Type()) || objOf(info, b) != recv {
						ok = false
					}
					if objOf(info, ix.Index) != sig.Params().At(0) || i >= len(x.Rhs) || objOf(info, x.Rhs[i]) != sig.Params().At(1) {
						ok = false
					}
				}
			case *ast.SelectorExpr:
				if _, fld := fieldOf(info, x); fld != nil && namedIs(fld.Type(), modPath, "Context") && !fld.Embedded() {
					ok = false // touches outer
				}
			}
			return true
		})
		if ok && nStores == 1 {
			r.Ok(rule, f.Name(), "c.data[key] = value", w.Pos(f.Decl.Pos()), "single store into the receiver's own map")
		} else {
			r.Bad(rule, f.Name(), "stores of Set", w.Pos(f.Decl.Pos()), "Set must store the given key and value into the receiver's own map only (never through outer)")
		}
	}
	ctxF := w.compilerField("ctx")
	for _, n := range []string{"LetStatement", "AssignExpression"} {
		f := w.evalMethod(n)
		if f == nil {
			r.Lost(rule, "evaluator for *ast."+n)
			continue
		}
		good := 0
		// Set calls in the evaluator itself and in the (non-evaluator) helpers it calls
		var scan func(g *FuncInfo, depth int)
		seenFn := map[*types.Func]bool{}
		scan = func(g *FuncInfo, depth int) {
			if g == nil || seenFn[g.Obj] || depth > 2 {
				return
			}
			seenFn[g.Obj] = true
			for _, c := range callsIn(g.Decl.Body, false) {
				cal := calleeOf(info, c)
				if cal == nil {
					continue
				}
				if cal.Name() != "Set" {
					if h := w.FuncOf(cal); h != nil && h.Rel == "" && isMethodOf(h, w.compilerType()) && len(w.evalMethodsOfFunc(h)) == 0 {
						scan(h, depth+1)
					}
					continue
				}
				sel, ok := unparen(c.Fun).(*ast.SelectorExpr)
				if !ok {
					continue
				}
				if _, fld := fieldOf(info, sel.X); fld == ctxF {
					good++
				} else {
					r.Bad(rule, g.Name(), "Set on "+short(w.Fset, sel.X), w.Pos(c.Pos()), "let/assignment must bind in the evaluator's current scope")
				}
			}
		}
		scan(f, 0)
		// success returns are (nil, nil)
		okRet := true
		for _, ret := range returnsIn(f.Decl.Body) {
			if len(ret.Results) == 2 && isNilIdent(info, ret.Results[1]) && !isNilIdent(info, ret.Results[0]) {
				okRet = false
				r.Bad(rule, f.Name(), "success return "+short(w.Fset, ret), w.Pos(ret.Pos()), "let/assignment must evaluate to nothing (nil): a non-nil value would be printed")
			}
		}
		if good == 1 && okRet {
			r.Ok(rule, f.Name(), "binds in the current scope and yields nil", w.Pos(f.Decl.Pos()), "c.ctx.Set(name, value); return nil, nil")
		} else if good != 1 {
			r.Bad(rule, f.Name(), fmt.Sprintf("%d Set call(s) on the current scope", good), w.Pos(f.Decl.Pos()), "exactly one binding in the current scope expected")
		}
	}
}

// ---- R4 ---------------------------------------------------------------------

func helperScopeRule(r *Run, rule string) {
	_ = r.W
	partialRulesSSA(r, rule, "", "", "")
	// contentOf / contentFor
	contentRulesSSA(r, "", "", "", rule)
}

func enclosingFuncBody(w *World, n ast.Node) *ast.BlockStmt {
	for p := w.Parent(n); p != nil; p = w.Parent(p) {
		switch x := p.(type) {
		case *ast.FuncLit:
			return x.Body
		case *ast.FuncDecl:
			return x.Body
		}
	}
	return nil
}

// ---- R5 ---------------------------------------------------------------------

func paramsInChildRule(r *Run, rule string) {
	w := r.W
	uf := w.userFunctionEval()
	if uf == nil {
		r.Lost(rule, "user-function call evaluator")
		return
	}
	info := uf.Pkg.TypesInfo
	ctxF := w.compilerField("ctx")
	var install token.Pos
	for _, s := range w.ctxStoresOf(uf) {
		if s.deferred == nil && s.lit == nil {
			install = s.as.Pos()
		}
	}
	n := 0
	for _, c := range callsIn(uf.Decl.Body, true) {
		cal := calleeOf(info, c)
		sel, isSel := unparen(c.Fun).(*ast.SelectorExpr)
		if cal == nil || !isSel || cal.Name() != "Set" {
			continue
		}
		if _, fld := fieldOf(info, sel.X); fld != ctxF {
			continue
		}
		n++
		if install.IsValid() && c.Pos() > install {
			r.Ok(rule, uf.Name(), "parameter binding "+short(w.Fset, c), w.Pos(c.Pos()), "after the child scope was installed")
		} else {
			r.Bad(rule, uf.Name(), "parameter binding "+short(w.Fset, c), w.Pos(c.Pos()), "a parameter is bound before the function's own scope is installed: it lands in the caller's scope")
		}
	}
	if n == 0 {
		r.Bad(rule, uf.Name(), "no parameter binding", w.Pos(uf.Decl.Pos()), "parameters must be bound with Set on the installed child scope")
	}
}

// userFunctionEval: the evaluator method with a parameter of type
// *userFunction (the type holding Parameters and Block of a function literal).
func (w *World) userFunctionEval() *FuncInfo {
	w.memoMu.Lock()
	if w.memo == nil {
		w.memo = map[string]interface{}{}
	}
	k := "userFunctionEval"
	if v, ok := w.memo[k]; ok {
		w.memoMu.Unlock()
		return v.(*FuncInfo)
	}
	w.memoMu.Unlock()
	v := w.userFunctionEvalUncached()
	w.memoMu.Lock()
	w.memo[k] = v
	w.memoMu.Unlock()
	return v
}

func (w *World) userFunctionEvalUncached() *FuncInfo {
	for _, f := range w.compilerMethods() {
		sig := f.Obj.Type().(*types.Signature)
		for i := 0; i < sig.Params().Len(); i++ {
			if namedIs(sig.Params().At(i).Type(), modPath, "userFunction") {
				return f
			}
		}
	}
	// role fallback: a parameter whose struct type has fields Parameters []*ast.Identifier and Block
	for _, f := range w.compilerMethods() {
		sig := f.Obj.Type().(*types.Signature)
		for i := 0; i < sig.Params().Len(); i++ {
			if st, ok := deref(sig.Params().At(i).Type()).Underlying().(*types.Struct); ok && !declaredIn(sig.Params().At(i).Type(), astPath) {
				hasP, hasB := false, false
				for j := 0; j < st.NumFields(); j++ {
					if namedIs(st.Field(j).Type(), astPath, "BlockStatement") {
						hasB = true
					}
					if sl, ok := st.Field(j).Type().(*types.Slice); ok && namedIs(sl.Elem(), astPath, "Identifier") {
						hasP = true
					}
				}
				if hasP && hasB {
					return f
				}
			}
		}
	}
	return nil
}
