package main

import (
	"fmt"
	"go/ast"
	"go/token"
	"go/types"
)

func init() {
	register("C09", checkC09, "which name the string-keyed rebinding of the index-then-member path binds (C11); behaviour of application helpers that keep contexts")
}

func checkC09(r *Run) {
	r.Rule("R1", "every function that installs a new current scope saves the old one in a local, installs a fresh child (or, in BlockWith, the context it was given) and restores the saved local in a defer placed before the install", 1)
	r.Rule("R2", "Context.New passes a fresh empty map and the receiver itself as outer; the constructor stores exactly those", 1)
	r.Rule("R3", "Context.Set writes only the receiver's own map; let and assignment evaluate to nothing and call Set on the current scope", 1)
	r.Rule("R4", "helper scopes: partial replaces its context by a child before any Set and renders with it; contentOf and the contentFor closure create the child per call, set the data on it and hand it to BlockWith; the only Set on the caller's context is the contentFor registration", 1)
	r.Rule("R5", "user-function parameters are bound in the installed child scope", 1)
	r.Rule("R6", "outer variables stay readable inside: a child scope injects a default helper only when the name is absent from the whole outer chain (Has walks the chain)", 1)
	helperInjectionRuleSSA(r, "R6")
	scopeDisciplineRuleSSA(r, "R1")
	freshChildRule(r, "R2")
	setLocalRule(r, "R3")
	helperScopeRule(r, "R4")
	paramsInChildRuleSSA(r, "R5")
}

// ---- R2 ---------------------------------------------------------------------

func freshChildRule(r *Run, rule string) {
	w := r.W
	info := w.Pkgs[""].TypesInfo
	ct := w.NamedType("", "Context")
	if ct == nil {
		r.Lost(rule, "Context type")
		return
	}
	var newM *FuncInfo
	for _, f := range w.Funcs("") {
		if isMethodOf(f, ct) && f.Decl.Name.Name == "New" {
			newM = f
		}
	}
	if newM == nil {
		r.Lost(rule, "Context.New")
		return
	}
	bld := w.ctxBuilder(newM, 0)
	if bld == nil {
		r.Lost(rule, "construction of the child context in Context.New (one literal or one call of a constructor)")
		return
	}
	con := "child construction " + short(w.Fset, bld.origin)
	if bld.data.kind == "freshmap" && bld.outer.kind == "recv" {
		r.Ok(rule, newM.Name(), con, w.Pos(bld.origin.Pos()), "fresh empty map; outer = the receiver")
	} else {
		r.Bad(rule, newM.Name(), con, w.Pos(bld.origin.Pos()),
			fmt.Sprintf("a child context must get a fresh empty map of its own and the receiver itself as its outer context (data: %s, outer: %s)", bld.data, bld.outer))
	}
	// New must not do anything else: no other call, no store through the receiver
	extra := 0
	for _, c := range callsIn(newM.Decl.Body, false) {
		if ast.Expr(c) != bld.origin && builtinName(info, c) == "" {
			extra++
		}
	}
	if extra > 0 {
		r.Bad(rule, newM.Name(), fmt.Sprintf("%d further call(s)", extra), w.Pos(newM.Decl.Pos()), "Context.New is expected to only construct and return the child")
	}
	for _, ret := range returnsIn(newM.Decl.Body) {
		okRet := false
		if len(ret.Results) == 1 {
			e := unparen(ret.Results[0])
			if u, isU := e.(*ast.UnaryExpr); isU {
				e = unparen(u.X)
			}
			okRet = e == bld.origin || (bld.newVar != nil && objOf(info, e) == bld.newVar)
		}
		if !okRet {
			r.Bad(rule, newM.Name(), "return "+short(w.Fset, ret), w.Pos(ret.Pos()), "Context.New must return the freshly built child on every path (never the receiver or a shared context)")
		}
	}
	// every constructor on the way stores exactly what it is given
	for g, depth := newM, 0; g != nil && depth < 5; depth++ {
		b := w.ctxBuilder(g, 0)
		if b == nil {
			break
		}
		call, isCall := b.origin.(*ast.CallExpr)
		if !isCall {
			break
		}
		next := w.FuncOf(calleeOf(g.Pkg.TypesInfo, call))
		if next == nil {
			break
		}
		nb := w.ctxBuilder(next, 0)
		if nb == nil {
			break
		}
		ccon := "context built from (" + nb.data.String() + ", " + nb.outer.String() + ")"
		if nb.data.kind == "param" && nb.outer.kind == "param" && nb.data.idx != nb.outer.idx {
			r.Ok(rule, next.Name(), ccon, w.Pos(next.Decl.Pos()), "data: <data parameter>, outer: <outer parameter>")
		} else {
			r.Bad(rule, next.Name(), "context literal", w.Pos(next.Decl.Pos()), "the constructor must store exactly the map and the outer context it was given")
		}
		g = next
	}
}

// ---- R3 ---------------------------------------------------------------------

func setLocalRule(r *Run, rule string) {
	w := r.W
	info := w.Pkgs[""].TypesInfo
	ct := w.NamedType("", "Context")
	if ct == nil {
		r.Lost(rule, "Context type")
		return
	}
	for _, f := range w.Funcs("") {
		if !isMethodOf(f, ct) || f.Decl.Name.Name != "Set" {
			continue
		}
		recv := f.Obj.Type().(*types.Signature).Recv()
		sig := f.Obj.Type().(*types.Signature)
		nStores := 0
		ok := true
		inspectBody(f.Decl.Body, false, func(n ast.Node) bool {
			switch x := n.(type) {
			case *ast.AssignStmt:
				for i, l := range x.Lhs {
					// what is stored is what was given: the parameters are not assigned on the way
					if o := objOf(info, l); o != nil && (o == types.Object(sig.Params().At(0)) || o == types.Object(sig.Params().At(1))) {
						ok = false
					}
					ix, isIx := l.(*ast.IndexExpr)
					if !isIx {
						continue
					}
					nStores++
					b, fld := fieldOf(info, ix.X)
					if fld == nil || !isMapStringIface(fld.Type()) || objOf(info, b) != recv {
						ok = false
					}
					if objOf(info, ix.Index) != sig.Params().At(0) || i >= len(x.Rhs) || objOf(info, x.Rhs[i]) != sig.Params().At(1) {
						ok = false
					}
				}
			case *ast.SelectorExpr:
				if _, fld := fieldOf(info, x); fld != nil && namedIs(fld.Type(), modPath, "Context") && !fld.Embedded() {
					ok = false // touches outer
				}
			case *ast.UnaryExpr:
				if x.Op == token.AND {
					if o := objOf(info, x.X); o != nil && (o == types.Object(sig.Params().At(0)) || o == types.Object(sig.Params().At(1))) {
						ok = false
					}
				}
			}
			return true
		})
		if ok && nStores == 1 {
			r.Ok(rule, f.Name(), "c.data[key] = value", w.Pos(f.Decl.Pos()), "single store into the receiver's own map")
		} else {
			r.Bad(rule, f.Name(), "stores of Set", w.Pos(f.Decl.Pos()), "Set must store the given key and value into the receiver's own map only (never through outer)")
		}
	}
	ctxF := w.compilerField("ctx")
	for _, n := range []string{"LetStatement", "AssignExpression"} {
		f := w.evalMethod(n)
		if f == nil {
			r.Lost(rule, "evaluator for *ast."+n)
			continue
		}
		good := 0
		// Set calls in the evaluator itself and in the (non-evaluator) helpers it calls
		var scan func(g *FuncInfo, depth int)
		seenFn := map[*types.Func]bool{}
		scan = func(g *FuncInfo, depth int) {
			if g == nil || seenFn[g.Obj] || depth > 2 {
				return
			}
			seenFn[g.Obj] = true
			for _, c := range callsIn(g.Decl.Body, false) {
				cal := calleeOf(info, c)
				if cal == nil {
					continue
				}
				if cal.Name() != "Set" {
					if h := w.FuncOf(cal); h != nil && h.Rel == "" && isMethodOf(h, w.compilerType()) && len(w.evalMethodsOfFunc(h)) == 0 {
						scan(h, depth+1)
					}
					continue
				}
				sel, ok := unparen(c.Fun).(*ast.SelectorExpr)
				if !ok {
					continue
				}
				if _, fld := fieldOf(info, sel.X); fld == ctxF {
					good++
				} else {
					r.Bad(rule, g.Name(), "Set on "+short(w.Fset, sel.X), w.Pos(c.Pos()), "let/assignment must bind in the evaluator's current scope")
				}
			}
		}
		scan(f, 0)
		// success returns are (nil, nil)
		okRet := true
		for _, ret := range returnsIn(f.Decl.Body) {
			if len(ret.Results) == 2 && isNilIdent(info, ret.Results[1]) && !isNilIdent(info, ret.Results[0]) {
				okRet = false
				r.Bad(rule, f.Name(), "success return "+short(w.Fset, ret), w.Pos(ret.Pos()), "let/assignment must evaluate to nothing (nil): a non-nil value would be printed")
			}
		}
		if good == 1 && okRet {
			r.Ok(rule, f.Name(), "binds in the current scope and yields nil", w.Pos(f.Decl.Pos()), "c.ctx.Set(name, value); return nil, nil")
		} else if good != 1 {
			r.Bad(rule, f.Name(), fmt.Sprintf("%d Set call(s) on the current scope", good), w.Pos(f.Decl.Pos()), "exactly one binding in the current scope expected")
		}
	}
}

// ---- R4 ---------------------------------------------------------------------

func helperScopeRule(r *Run, rule string) {
	_ = r.W
	partialRulesSSA(r, rule, "", "", "")
	// contentOf / contentFor
	contentRulesSSA(r, "", "", "", rule)
}

// ---- R5 ---------------------------------------------------------------------

// userFunctionEval: the evaluator method with a parameter of type
// *userFunction (the type holding Parameters and Block of a function literal).
func (w *World) userFunctionEval() *FuncInfo {
	w.memoMu.Lock()
	if w.memo == nil {
		w.memo = map[string]interface{}{}
	}
	k := "userFunctionEval"
	if v, ok := w.memo[k]; ok {
		w.memoMu.Unlock()
		return v.(*FuncInfo)
	}
	w.memoMu.Unlock()
	v := w.userFunctionEvalUncached()
	w.memoMu.Lock()
	w.memo[k] = v
	w.memoMu.Unlock()
	return v
}

func (w *World) userFunctionEvalUncached() *FuncInfo {
	for _, f := range w.compilerMethods() {
		sig := f.Obj.Type().(*types.Signature)
		for i := 0; i < sig.Params().Len(); i++ {
			if namedIs(sig.Params().At(i).Type(), modPath, "userFunction") {
				return f
			}
		}
	}
	// role fallback: a parameter whose struct type has fields Parameters []*ast.Identifier and Block
	for _, f := range w.compilerMethods() {
		sig := f.Obj.Type().(*types.Signature)
		for i := 0; i < sig.Params().Len(); i++ {
			if st, ok := deref(sig.Params().At(i).Type()).Underlying().(*types.Struct); ok && !declaredIn(sig.Params().At(i).Type(), astPath) {
				hasP, hasB := false, false
				for j := 0; j < st.NumFields(); j++ {
					if namedIs(st.Field(j).Type(), astPath, "BlockStatement") {
						hasB = true
					}
					if sl, ok := st.Field(j).Type().(*types.Slice); ok && namedIs(sl.Elem(), astPath, "Identifier") {
						hasP = true
					}
				}
				if hasP && hasB {
					return f
				}
			}
		}
	}
	return nil
}
