package main

import (
	"fmt"
	"go/ast"
	"go/constant"
	"go/token"
	"go/types"
	"sort"
	"strings"

	"golang.org/x/tools/go/cfg"
	"golang.org/x/tools/go/ssa"
)

func init() {
	register("C03", checkC03, "Go stack exhaustion under adversarial nesting depth (recursion depth is linear in nesting depth; no bound on the stack is attempted)")
}

func checkC03(r *Run) {
	r.Rule("R1", "lexer reaches EOF and stays there: every lexer loop's condition is false for the NUL sentinel, readChar yields NUL at end of input, both token functions return EOF on NUL", 4)
	r.Rule("R2", "every parser loop is EOF-safe: counted, positive-with-consumption, Pratt, or negative with an EOF exit (in the condition, by an EOF test that returns, or by a failing-returns expectPeek on every path)", 4)
	r.Rule("R3", "progress on recursive cycles: no cycle of parse functions can be traversed without consuming a token", 8)
	r.Rule("R4", "expectPeek idiom: every expectPeek call is the negated condition of an if whose body returns", 4)
	r.Rule("R5", "nil-safety: no method call or field access through an expression that may be nil (a failed sub-parse) without a dominating nil test, in the parser and in the AST printers it calls", 10)
	r.Rule("R6", "other panic obligations in lexer/parser/ast: single-result type assertions and index expressions are discharged", 3)
	r.Rule("R7", "errors are values: Parse returns the error list iff it is non-empty; a parse function that gives up has recorded an error", 1)
	r.Rule("R8", "cursor invariant: at end of input readChar pins position at len(input) and returns; input is indexed only under the in-range test", 1)
	r.Rule("R9", "no typed nil: a node pointer that may be nil is never converted to an AST interface (return, assignment, argument, literal field, append) in the parser", 4)
	r.Rule("R10", "printers are linear: on every path of an AST printer each child expression is printed at most once (the parser prints every statement; a double print costs 2^depth)", 10)
	lx := analyseLexerArms(r.W)
	lexerEOFRuleSSA(r, "R1")
	parserLoopsRuleSSA(r, "R2")
	recursionProgressRule(r, "R3")
	expectPeekIdiomRule(r, "R4")
	nilSafetyRule(r, "R5")
	otherPanicsRule(r, "R6", lx)
	errorsAreValuesRule(r, "R7")
	cursorInvariantRuleSSA(r, "R8")
	typedNilRule(r, "R9")
	linearPrintersRule(r, "R10")
	r.Rule("R11", "Parse returns, and so does the next one: every function Parse reaches gives back each sync lock it takes at every exit (deferred unlocks counted) and never locks a mutex it still holds", 1)
	lockBalanceRule(r, "R11")
}

// ---- R1 ---------------------------------------------------------------------

// ---- R8 ---------------------------------------------------------------------

// ---- R2 ---------------------------------------------------------------------

// failingCallForcesReturn: the if's body leaves the function and its condition
// is a disjunction one of whose alternatives ends in `!call` (so that, when
// the call is reached and fails, the body runs).
func failingCallForcesReturn(ifs *ast.IfStmt, call *ast.CallExpr) bool {
	if !terminates(ifs.Body.List) {
		return false
	}
	for _, d := range disjuncts(ifs.Cond) {
		cj := conjuncts(d)
		last := unparen(cj[len(cj)-1])
		if u, ok := last.(*ast.UnaryExpr); ok && u.Op == token.NOT && unparen(u.X) == ast.Expr(call) {
			return true
		}
	}
	return false
}

// ---- R4 ---------------------------------------------------------------------

func expectPeekIdiomRule(r *Run, rule string) {
	w := r.W
	pm := w.parserModel()
	if len(pm.problems) > 0 {
		r.Lost(rule, "parser model: "+strings.Join(pm.problems, "; "))
		return
	}
	for _, f := range pm.methods {
		if f == pm.expectPeek {
			continue
		}
		for _, c := range callsIn(f.Decl.Body, false) {
			if calleeOf(pm.info, c) != pm.expectPeek.Obj {
				continue
			}
			con := short(w.Fset, c)
			ok := false
			// parent chain: !call  (possibly inside &&) as the condition of an if that returns
			var child ast.Node = c
			for p := w.Parent(c); p != nil; child, p = p, w.Parent(p) {
				if ifs, isIf := p.(*ast.IfStmt); isIf {
					if child == ast.Node(ifs.Cond) && failingCallForcesReturn(ifs, c) {
						ok = true
					}
					break
				}
				if _, isStmt := p.(ast.Stmt); isStmt {
					break
				}
			}
			if ok {
				r.Ok(rule, f.Name(), con, w.Pos(c.Pos()), "if !expectPeek(T) { return }")
			} else {
				r.Bad(rule, f.Name(), con, w.Pos(c.Pos()), "the result of expectPeek must decide an immediate return: continuing after a failed expectPeek parses from the wrong token")
			}
		}
	}
}

// ---- R3 ---------------------------------------------------------------------

func recursionProgressRule(r *Run, rule string) {
	w := r.W
	pm := w.parserModel()
	if len(pm.problems) > 0 {
		r.Lost(rule, "parser model: "+strings.Join(pm.problems, "; "))
		return
	}
	info := pm.info
	// edges f -> g, unconsumed if g can be called from f's entry without a token having been consumed
	type edge struct {
		to         *types.Func
		unconsumed bool
		pos        token.Pos
	}
	edges := map[*types.Func][]edge{}
	byObj := map[*types.Func]*FuncInfo{}
	for _, f := range pm.methods {
		byObj[f.Obj] = f
	}
	for _, f := range pm.methods {
		g := cfgOf(info, f.Decl.Body)
		tr := func(n ast.Node, st int) int {
			for _, c := range nodeCalls(n) {
				if pm.isMover(c) {
					st = 1
				}
			}
			return st
		}
		forwardStates(g, 0, tr, func(n ast.Node, st int) {
			s := st
			for _, c := range nodeCalls(n) {
				cal := calleeOf(info, c)
				if cal != nil && byObj[cal] != nil && pm.movers[cal] {
					edges[f.Obj] = append(edges[f.Obj], edge{cal, s == 0, c.Pos()})
				} else if cal == nil && pm.isRegistryCall(c) {
					// prefix()/infix(left): all registered functions of that arity
					nargs := len(c.Args)
					for _, reg := range pm.regs {
						if reg.Fn != nil && (reg.Infix == (nargs == 1)) {
							edges[f.Obj] = append(edges[f.Obj], edge{reg.Fn.Obj, s == 0, c.Pos()})
						}
					}
				}
				if pm.isMover(c) {
					s = 1
				}
			}
		})
	}
	// the advance method and expectPeek consume by definition: remove their outgoing edges
	delete(edges, pm.advance.Obj)
	delete(edges, pm.expectPeek.Obj)
	// cycles made of unconsumed edges only
	unc := map[*types.Func][]edge{}
	nEdges := 0
	for f, es := range edges {
		for _, e := range es {
			nEdges++
			if e.unconsumed && e.to != pm.advance.Obj && e.to != pm.expectPeek.Obj {
				unc[f] = append(unc[f], e)
			}
		}
	}
	color := map[*types.Func]int{}
	var stack []*types.Func
	var cycles [][]*types.Func
	var dfs func(f *types.Func)
	dfs = func(f *types.Func) {
		color[f] = 1
		stack = append(stack, f)
		for _, e := range unc[f] {
			switch color[e.to] {
			case 0:
				dfs(e.to)
			case 1:
				// cycle
				var cyc []*types.Func
				for i := len(stack) - 1; i >= 0; i-- {
					cyc = append([]*types.Func{stack[i]}, cyc...)
					if stack[i] == e.to {
						break
					}
				}
				cycles = append(cycles, cyc)
			}
		}
		stack = stack[:len(stack)-1]
		color[f] = 2
	}
	var objs []*types.Func
	for f := range byObj {
		objs = append(objs, f)
	}
	sort.Slice(objs, func(i, j int) bool { return objs[i].Pos() < objs[j].Pos() })
	for _, f := range objs {
		if color[f] == 0 {
			dfs(f)
		}
	}
	for _, cyc := range cycles {
		var names []string
		for _, f := range cyc {
			names = append(names, f.Name())
		}
		// licensed: the statement parser re-entering itself after stepping over '<%' is consumed; anything else is a violation
		r.Bad(rule, byObj[cyc[0]].Name(), "cycle "+strings.Join(names, " -> "), w.Pos(byObj[cyc[0]].Decl.Pos()),
			"these parse functions can call each other in a cycle without consuming a token: on some input the parser recurses forever")
	}
	for _, f := range objs {
		if len(edges[f]) > 0 {
			nu := len(unc[f])
			r.Ok(rule, byObj[f].Name(), fmt.Sprintf("%d call edge(s), %d before any token is consumed", len(edges[f]), nu), w.Pos(byObj[f].Decl.Pos()), "on no cycle of unconsumed edges")
		}
	}
	r.Note("R3: %d call edges between %d parse functions; registries resolved from %d registration sites", nEdges, len(objs), len(pm.regs))
	// registrations must resolve
	for _, reg := range pm.regs {
		if reg.Fn == nil && reg.Lit == nil {
			r.Bad(rule, "parser.newParser", "unresolved registration "+short(w.Fset, reg.Call), w.Pos(reg.Call.Pos()), "a registered parse function could not be resolved; the recursion graph is incomplete")
		}
	}
}

// ---- R7 ---------------------------------------------------------------------

func errorsAreValuesRule(r *Run, rule string) {
	w := r.W
	pm := w.parserModel()
	if len(pm.problems) > 0 || pm.errorsF == nil {
		r.Lost(rule, "parser model")
		return
	}
	info := pm.info
	// the package-level Parse: if len(p.errors) > 0 { return prog, p.errors }; return prog, nil
	for _, f := range w.Funcs("parser") {
		if f.Decl.Recv != nil || !f.Decl.Name.IsExported() {
			continue
		}
		sig := f.Obj.Type().(*types.Signature)
		if sig.Results().Len() != 2 || !isErrorType(sig.Results().At(1).Type()) {
			continue
		}
		okErr, okNil := false, false
		inspectBody(f.Decl.Body, false, func(n ast.Node) bool {
			ifs, ok := n.(*ast.IfStmt)
			if !ok {
				return true
			}
			be, ok := unparen(ifs.Cond).(*ast.BinaryExpr)
			if !ok || !(be.Op == token.GTR || be.Op == token.NEQ) {
				return true
			}
			c, ok := unparen(be.X).(*ast.CallExpr)
			if !ok || builtinName(info, c) != "len" {
				return true
			}
			if _, fld := fieldOf(info, c.Args[0]); fld != pm.errorsF {
				return true
			}
			if v, ok := constInt(info, be.Y); !ok || v != 0 {
				return true
			}
			for _, st := range ifs.Body.List {
				if ret, ok := st.(*ast.ReturnStmt); ok && len(ret.Results) == 2 {
					if _, fld := fieldOf(info, ret.Results[1]); fld == pm.errorsF {
						okErr = true
					}
				}
			}
			return true
		})
		rets := returnsIn(f.Decl.Body)
		if len(rets) > 0 {
			last := rets[len(rets)-1]
			if len(last.Results) == 2 && isNilIdent(info, last.Results[1]) {
				okNil = true
			}
		}
		if okErr && okNil {
			r.Ok(rule, f.Name(), "error list returned iff non-empty", w.Pos(f.Decl.Pos()), "if len(errors) > 0 { return prog, errors }; return prog, nil")
		} else {
			r.Bad(rule, f.Name(), "error list returned iff non-empty", w.Pos(f.Decl.Pos()), "Parse must report the accumulated syntax errors exactly when there are some")
		}
	}
	// the Pratt entry records an error when it has no prefix function: on every path on which the lookup
	// in the prefix registry came back empty (ok == false, or a nil function) an error is recorded
	pratt := pm.pratt
	okNoPrefix := false
	if fn := w.SSAFunc(pratt); fn != nil {
		paths, complete := walkPathsUnrolled(fn, nil, nil, 50000)
		nMiss, allRecorded := 0, complete
		for _, p := range paths {
			miss := false
			for _, d := range p.decisions {
				var lk *ssa.Lookup
				isMiss := false
				if ex, ok := d.cond.(*ssa.Extract); ok {
					if l, ok := ex.Tuple.(*ssa.Lookup); ok && ex.Index == 1 && !d.truth {
						lk, isMiss = l, true
					}
				}
				if x, op, ok := isNilCompare(p, d.cond); ok && d.truth == (op == token.EQL) {
					switch y := p.resolve(x).(type) {
					case *ssa.Lookup:
						lk, isMiss = y, true
					case *ssa.Extract:
						if l, ok := y.Tuple.(*ssa.Lookup); ok && y.Index == 0 {
							lk, isMiss = l, true
						}
					}
				}
				if lk == nil || !isMiss {
					continue
				}
				// a registry of parse functions: a map field of the parser whose values are functions
				if mt, ok := lk.X.Type().Underlying().(*types.Map); ok {
					// (the prefix registry: functions without operand; a missing infix function just ends the expression)
					if sg, isFn := mt.Elem().Underlying().(*types.Signature); isFn && sg.Params().Len() == 0 {
						miss = true
					}
				}
			}
			if !miss {
				continue
			}
			nMiss++
			recorded := false
			for _, ev := range p.events {
				if c, ok := ev.(*ssa.Call); ok {
					if cal := c.Call.StaticCallee(); cal != nil {
						if obj, ok := cal.Object().(*types.Func); ok {
							if fi := w.FuncOf(obj); fi != nil && appendsError(pm, fi) {
								recorded = true
							}
						}
					}
				}
			}
			if !recorded {
				allRecorded = false
			}
		}
		okNoPrefix = nMiss > 0 && allRecorded
	}
	if okNoPrefix {
		r.Ok(rule, pratt.Name(), "missing prefix function is an error", w.Pos(pratt.Decl.Pos()), "records 'no prefix parse function' before giving up")
	} else {
		r.Bad(rule, pratt.Name(), "missing prefix function is an error", w.Pos(pratt.Decl.Pos()), "an unparseable token must be reported")
	}
	// expectPeek records an error on failure
	okPeek := false
	for _, c := range callsIn(pm.expectPeek.Decl.Body, false) {
		if fi := w.FuncOf(calleeOf(info, c)); fi != nil && appendsError(pm, fi) {
			okPeek = true
		}
	}
	if okPeek {
		r.Ok(rule, pm.expectPeek.Name(), "failed expectation is an error", w.Pos(pm.expectPeek.Decl.Pos()), "records 'expected next token' on failure")
	} else {
		r.Bad(rule, pm.expectPeek.Name(), "failed expectation is an error", w.Pos(pm.expectPeek.Decl.Pos()), "a failed expectPeek must record a syntax error")
	}
}

// appendsError: f writes the parser's error list, directly or through a
// parser method it calls (a formatting recorder such as errorf).
func appendsError(pm *parserModel, f *FuncInfo) bool { return appendsErrorD(pm, f, 0) }

func appendsErrorD(pm *parserModel, f *FuncInfo, depth int) bool {
	if f == nil || depth > 3 {
		return false
	}
	return stmtsRecordError(pm, f.Decl.Body, depth)
}

// stmtsRecordError: the statements under n append to the error list (possibly via a recorder method).
func stmtsRecordError(pm *parserModel, n ast.Node, depth int) bool {
	found := false
	inspectBody(n, false, func(x ast.Node) bool {
		switch s := x.(type) {
		case *ast.AssignStmt:
			if len(s.Lhs) == 1 {
				if pm.isErrorsLHS(s.Lhs[0]) {
					found = true
				}
			}
		case *ast.CallExpr:
			if g := pm.w.FuncOf(calleeOf(pm.info, s)); g != nil && g.Rel == "parser" && depth < 3 {
				sig := g.Obj.Type().(*types.Signature)
				if sig.Recv() != nil && sig.Results().Len() == 0 && appendsErrorD(pm, g, depth+1) {
					// (a method of the list's own type records into the list it is called on)
					if rt, isPtr := sig.Recv().Type().(*types.Pointer); isPtr && types.Identical(rt.Elem(), pm.errorsF.Type()) && !pm.callOnErrors(s) {
						return true
					}
					found = true
				}
			}
		}
		return !found
	})
	return found
}

// ---- R6 ---------------------------------------------------------------------

func otherPanicsRule(r *Run, rule string, m *lexerModel) {
	w := r.W
	for _, rel := range []string{"lexer", "parser", "ast", "token"} {
		for _, f := range w.Funcs(rel) {
			info := f.Pkg.TypesInfo
			ast.Inspect(f.Decl.Body, func(n ast.Node) bool {
				switch x := n.(type) {
				case *ast.TypeAssertExpr:
					if x.Type == nil {
						return true // type switch
					}
					// comma-ok?
					if as, ok := w.Parent(x).(*ast.AssignStmt); ok && len(as.Lhs) == 2 && len(as.Rhs) == 1 && as.Rhs[0] == ast.Expr(x) {
						return true
					}
					if vs, ok := w.Parent(x).(*ast.ValueSpec); ok && len(vs.Names) == 2 {
						return true
					}
					con := "assertion " + short(w.Fset, x)
					if assertedFromLiteral(w, info, f, x) {
						r.Ok(rule, f.Name(), con, w.Pos(x.Pos()), "every assignment of the operand in this function is a composite literal of the asserted type")
					} else {
						r.Bad(rule, f.Name(), con, w.Pos(x.Pos()), "single-result type assertion on a value whose dynamic type is not fixed by construction: it panics on any other type")
					}
				case *ast.CallExpr:
					// a call that panics by contract on template-controlled input: panic(...) itself, and the Must*
					// constructors of the standard library (regexp.MustCompile on a literal of the template)
					if id, isId := unparen(x.Fun).(*ast.Ident); isId && id.Name == "panic" {
						if _, isB := info.Uses[id].(*types.Builtin); isB {
							r.Bad(rule, f.Name(), "panic("+short(w.Fset, x)+")", w.Pos(x.Pos()), "the lexer, the parser and the tree report what they cannot handle as an error; a panic takes Parse (and the process) down")
						}
					}
					constArgs := len(x.Args) > 0
					for _, a := range x.Args {
						if tv, okT := info.Types[a]; !okT || tv.Value == nil {
							constArgs = false
						}
					}
					// (on constant arguments the outcome is the same for every template: a pattern written in the source)
					if cal := calleeOf(info, x); cal != nil && !constArgs && cal.Pkg() != nil && !strings.HasPrefix(cal.Pkg().Path(), modPath) && strings.HasPrefix(cal.Name(), "Must") {
						r.Bad(rule, f.Name(), "call of "+cal.Pkg().Name()+"."+cal.Name(), w.Pos(x.Pos()), cal.Pkg().Name()+"."+cal.Name()+" panics when its argument is not well formed: on text that comes from the template Parse panics instead of returning a syntax error")
					}
				case *ast.IndexExpr:
					tv, ok := info.Types[x.X]
					if !ok {
						return true
					}
					switch tv.Type.Underlying().(type) {
					case *types.Slice, *types.Array:
					case *types.Basic: // string
						if b := tv.Type.Underlying().(*types.Basic); b.Info()&types.IsString == 0 {
							return true
						}
					default:
						return true
					}
					con := "index " + short(w.Fset, x)
					// an array of at least 256 elements indexed by a byte
					if at, isArr := tv.Type.Underlying().(*types.Array); isArr && at.Len() >= 256 {
						if it, ok := info.Types[x.Index]; ok {
							if bt, isB := it.Type.Underlying().(*types.Basic); isB && (bt.Kind() == types.Uint8 || bt.Kind() == types.Byte) {
								r.Ok(rule, f.Name(), con, w.Pos(x.Pos()), "a byte indexes an array of 256 elements or more")
								return true
							}
						}
					}
					if why := indexDischarged(w, info, f, x, m); why != "" {
						r.Ok(rule, f.Name(), con, w.Pos(x.Pos()), why)
					} else if why := ledgerDischarges(w, f, x.Lbrack, x.Pos(), x.End()); why != "" {
						r.Ok(rule, f.Name(), con, w.Pos(x.Pos()), why)
					} else {
						r.Bad(rule, f.Name(), con, w.Pos(x.Pos()), "index expression without an established bound")
					}
				}
				return true
			})
		}
	}
}

// ledgerDischarges: every index/slice obligation of the SSA form of f that
// lies within [from, to) of the source is discharged by the panic-obligation
// ledger (difference constraints over dominating comparisons, induction
// variables, len/Split facts). Returns the justification, or "".
func ledgerDischarges(w *World, f *FuncInfo, at, from, to token.Pos) string {
	fn := w.SSAFunc(f)
	if fn == nil {
		return ""
	}
	lg := newLedger(w, fn)
	n := 0
	var hows []string
	for _, ob := range lg.collect() {
		switch ob.ins.(type) {
		case *ssa.IndexAddr, *ssa.Index, *ssa.Lookup, *ssa.Slice:
		default:
			continue
		}
		p := ob.ins.Pos()
		if p != at && !(p >= from && p < to) {
			continue
		}
		n++
		for _, pr := range ob.preds {
			ok, why := pr.prove()
			if !ok {
				return ""
			}
			hows = append(hows, why)
		}
	}
	if n == 0 {
		return ""
	}
	return "bounds ledger: " + strings.Join(hows, "; ")
}

func assertedFromLiteral(w *World, info *types.Info, f *FuncInfo, ta *ast.TypeAssertExpr) bool {
	want := info.Types[ta.Type].Type
	// operand: X.field or local
	n, good := 0, true
	_, fld := fieldOf(info, ta.X)
	obj := objOf(info, ta.X)
	inspectBody(f.Decl.Body, false, func(nd ast.Node) bool {
		as, ok := nd.(*ast.AssignStmt)
		if !ok {
			return true
		}
		for i, l := range as.Lhs {
			match := false
			if fld != nil {
				if _, lf := fieldOf(info, l); lf == fld {
					match = true
				}
			} else if obj != nil && objOf(info, l) == obj {
				match = true
			}
			if !match || i >= len(as.Rhs) {
				continue
			}
			if as.Pos() > ta.Pos() {
				continue
			}
			n++
			if !types.Identical(info.Types[as.Rhs[i]].Type, want) {
				good = false
			}
		}
		return true
	})
	// the assertion must not be reachable before the first assignment: require the assignment
	// to be in an enclosing-or-same block that precedes it
	return n > 0 && good
}

func indexDischarged(w *World, info *types.Info, f *FuncInfo, ix *ast.IndexExpr, m *lexerModel) string {
	// constant index 0 or len(x)-1 on the result of strings.Split
	base := objOf(info, ix.X)
	fromSplit := false
	if base != nil {
		inspectBody(f.Decl.Body, false, func(n ast.Node) bool {
			if as, ok := n.(*ast.AssignStmt); ok && len(as.Lhs) == 1 && len(as.Rhs) == 1 && objOf(info, as.Lhs[0]) == base {
				if c, ok := unparen(as.Rhs[0]).(*ast.CallExpr); ok && funcIs(calleeOf(info, c), "strings", "Split") {
					if sep, ok := constString(info, c.Args[1]); ok && sep != "" {
						fromSplit = true
					}
				}
			}
			return true
		})
	}
	if fromSplit {
		if v, ok := constInt(info, ix.Index); ok && v == 0 {
			return "strings.Split with a non-empty separator returns at least one element"
		}
		if be, ok := unparen(ix.Index).(*ast.BinaryExpr); ok && be.Op == token.SUB {
			if c, ok := unparen(be.X).(*ast.CallExpr); ok && builtinName(info, c) == "len" && objOf(info, c.Args[0]) == base {
				if v, ok := constInt(info, be.Y); ok && v == 1 {
					return "len-1 of a strings.Split result (length >= 1)"
				}
			}
		}
	}
	// loop induction variable bounded by len of the same slice
	if iv := objOf(info, ix.Index); iv != nil {
		// ... as long as the body leaves both alone: after an `i++` of its own (an escape that takes the next
		// byte along) the test at the head of the loop says nothing about i any more; the ledger decides those
		writtenIn := func(body *ast.BlockStmt) bool {
			written := false
			ast.Inspect(body, func(n ast.Node) bool {
				switch y := n.(type) {
				case *ast.AssignStmt:
					for _, l := range y.Lhs {
						if o := objOf(info, l); o != nil && (o == iv || sameObjExpr(info, l, ix.X)) {
							written = true
						}
					}
				case *ast.IncDecStmt:
					if objOf(info, y.X) == iv {
						written = true
					}
				case *ast.UnaryExpr:
					if y.Op == token.AND && objOf(info, y.X) == iv {
						written = true
					}
				}
				return !written
			})
			return written
		}
		for p := w.Parent(ix); p != nil; p = w.Parent(p) {
			if l, ok := p.(*ast.ForStmt); ok && l.Body != nil && writtenIn(l.Body) {
				break
			}
			if rs, ok := p.(*ast.RangeStmt); ok && rs.Body != nil && objOf(info, rs.Key) == iv && writtenIn(rs.Body) {
				break
			}
			if l, ok := p.(*ast.ForStmt); ok && l.Cond != nil {
				if be, ok := unparen(l.Cond).(*ast.BinaryExpr); ok && be.Op == token.LSS && objOf(info, be.X) == iv {
					// i < len(x) or i < len(x)-1
					bound := unparen(be.Y)
					if sub, ok := bound.(*ast.BinaryExpr); ok && sub.Op == token.SUB {
						bound = unparen(sub.X)
					}
					if c, ok := bound.(*ast.CallExpr); ok && builtinName(info, c) == "len" && sameObjExpr(info, c.Args[0], ix.X) {
						return "induction variable bounded by len of the indexed slice"
					}
				}
			}
			if rs, ok := p.(*ast.RangeStmt); ok && objOf(info, rs.Key) == iv && sameObjExpr(info, rs.X, ix.X) {
				return "range index"
			}
		}
	}
	// lexer: input[readPosition] under the in-range test; prevChar's relative reads
	if m != nil && f.Rel == "lexer" {
		if _, fld := fieldOf(info, ix.X); fld == m.input {
			if f.Obj == m.readChar.Obj {
				return "guarded by the end-of-input branch (R8)"
			}
			// peek: the index is known to be < len(input): `if idx >= len(input) { return 0 }` precedes, or the
			// index expression sits inside `if idx < len(input) { ... }`
			isLenInput := func(e ast.Expr) bool {
				c, ok := unparen(e).(*ast.CallExpr)
				if !ok || builtinName(info, c) != "len" || len(c.Args) != 1 {
					return false
				}
				_, fld := fieldOf(info, c.Args[0])
				return fld == m.input
			}
			guarded := w.dominatedBy(info, ix, nil, func(cond ast.Expr, truth bool) bool {
				// a one-line predicate of the lexer on the same receiver: func (l *Lexer) atEnd() bool { return l.readPosition >= len(l.input) }
				if pc, isCall := unparen(cond).(*ast.CallExpr); isCall && len(pc.Args) == 0 {
					if g := w.FuncOf(calleeOf(info, pc)); g != nil && g.Rel == "lexer" && len(g.Decl.Body.List) == 1 {
						if ret, isRet := g.Decl.Body.List[0].(*ast.ReturnStmt); isRet && len(ret.Results) == 1 {
							cond = ret.Results[0]
						}
					}
				}
				for {
					u, isNot := unparen(cond).(*ast.UnaryExpr)
					if !isNot || u.Op != token.NOT {
						break
					}
					cond, truth = u.X, !truth
					if pc, isCall := unparen(cond).(*ast.CallExpr); isCall && len(pc.Args) == 0 {
						if g := w.FuncOf(calleeOf(info, pc)); g != nil && g.Rel == "lexer" && len(g.Decl.Body.List) == 1 {
							if ret, isRet := g.Decl.Body.List[0].(*ast.ReturnStmt); isRet && len(ret.Results) == 1 {
								cond = ret.Results[0]
							}
						}
					}
				}
				be, ok := unparen(cond).(*ast.BinaryExpr)
				if !ok {
					return false
				}
				x, y, op := be.X, be.Y, be.Op
				if isLenInput(x) {
					x, y = y, x
					switch op {
					case token.LSS:
						op = token.GTR
					case token.GTR:
						op = token.LSS
					case token.LEQ:
						op = token.GEQ
					case token.GEQ:
						op = token.LEQ
					}
				}
				sameCursor := sameObjExpr(info, x, ix.Index)
				if !sameCursor {
					// the same field of the receiver, named in a predicate method of the lexer
					_, f1 := fieldOf(info, x)
					_, f2 := fieldOf(info, ix.Index)
					sameCursor = f1 != nil && f1 == f2
				}
				if !isLenInput(y) || !sameCursor {
					return false
				}
				return (op == token.LSS && truth) || (op == token.GEQ && !truth)
			})
			if guarded {
				return "guarded by 'index >= len(input) -> return'"
			}
			// prevChar: reads input[F-k] behind the cursor. Every caller sits in a loop that requires ch != 0, i.e.
			// position < len(input) and readPosition = position+1 <= len(input): the upper bound holds for k >= 0.
			// Lower bound: the constructor has called readChar, so readPosition >= 1 and position >= 0; anything
			// beyond that (readPosition-2, position-1, ...) needs a dominating test of the same field.
			// ... also when the index goes through a local: prev := readPosition - 2; if prev < 0 { prev = readPosition - 1 }
			viaLocal := false
			if _, isLocal := unparen(ix.Index).(*ast.Ident); isLocal {
				viaLocal = true
			}
			if be, isBE := unparen(ix.Index).(*ast.BinaryExpr); isBE && be.Op == token.SUB {
				if _, isC := constInt(info, be.Y); !isC {
					viaLocal = true // input[readPosition-back] with back a local
				}
			}
			if viaLocal && callersRequireNonNul(w, m, f) && relativeReadsBounded(w, m, f) {
				return "relative read behind the cursor through a local: every value it can hold is the cursor minus an offset within the field's known lower bound, or was found non-negative on its way; every caller is inside a loop whose condition excludes NUL"
			}
			if be, ok := unparen(ix.Index).(*ast.BinaryExpr); ok && be.Op == token.SUB {
				if k, ok := constInt(info, be.Y); ok && k >= 1 {
					_, fld := fieldOf(info, be.X)
					base := int64(-1)
					if fld != nil && fld == m.aheadField() {
						base = 1
					} else if fld != nil && isPosField(m, fld) {
						base = 0
					}
					if base >= 0 && callersRequireNonNul(w, m, f) && (k <= base || lowerGuarded(w, info, f, ix, fld, k)) {
						return "relative read behind the cursor; every caller is inside a loop whose condition excludes NUL (so 1 <= readPosition <= len(input)), and the offset is within the field's known lower bound or under a dominating test of that field"
					}
				}
			}
		}
	}
	// constant index under `if len(x) > c` or inside `switch len(x) { case k: ... }` with index < k
	if v, ok := constInt(info, ix.Index); ok {
		var child ast.Node = ix
		for p := w.Parent(ix); p != nil; child, p = p, w.Parent(p) {
			switch x := p.(type) {
			case *ast.IfStmt:
				if child == ast.Node(x.Body) {
					for _, cj := range conjuncts(x.Cond) {
						if be, ok := unparen(cj).(*ast.BinaryExpr); ok && (be.Op == token.GTR || be.Op == token.GEQ) {
							if c, ok := unparen(be.X).(*ast.CallExpr); ok && builtinName(info, c) == "len" && sameObjExpr(info, c.Args[0], ix.X) {
								if k, ok := constInt(info, be.Y); ok && ((be.Op == token.GTR && v <= k) || (be.Op == token.GEQ && v < k)) {
									return "under 'len(x) > c'"
								}
							}
						}
					}
				}
			case *ast.CaseClause:
				if sw, ok := w.Parent(w.Parent(x)).(*ast.SwitchStmt); ok && sw.Tag != nil {
					if c, ok := unparen(sw.Tag).(*ast.CallExpr); ok && builtinName(info, c) == "len" && sameObjExpr(info, c.Args[0], ix.X) && len(x.List) > 0 {
						all := true
						for _, ce := range x.List {
							if k, ok := constInt(info, ce); !ok || v >= k {
								all = false
							}
						}
						if all {
							return "inside 'switch len(x)' arm whose length exceeds the index"
						}
					}
				}
			case *ast.FuncDecl:
				p = nil
			}
			if p == nil {
				break
			}
		}
	}
	// constant index into a fixed-size array or a string constant
	if tv, ok := info.Types[ix.X]; ok {
		if arr, ok := tv.Type.Underlying().(*types.Array); ok {
			if v, ok := constInt(info, ix.Index); ok && v >= 0 && v < arr.Len() {
				return "constant index into an array"
			}
		}
	}
	return ""
}

// callersRequireNonNul: every call of f in the lexer lies inside a for loop
// whose condition is false for ch = 0.
// aheadField: the cursor field readChar indexes the input with (one ahead of position).
func (m *lexerModel) aheadField() *types.Var {
	var out *types.Var
	if m.readChar == nil {
		return nil
	}
	// from the summary of readChar's paths (helpers inlined): the field the input is indexed with
	if m.w != nil {
		if lm := m.w.lexSSA(); lm != nil && lm.readChar != nil {
			if sum := lm.readCharSummary(); sum.aheadIdx >= 0 {
				if rc := lm.readChar.Signature.Recv(); rc != nil {
					if st, ok := deref(rc.Type()).Underlying().(*types.Struct); ok && sum.aheadIdx < st.NumFields() {
						return st.Field(sum.aheadIdx)
					}
				}
			}
		}
	}
	inspectBody(m.readChar.Decl.Body, false, func(n ast.Node) bool {
		if ix, ok := n.(*ast.IndexExpr); ok {
			if _, fld := fieldOf(m.info, ix.X); fld == m.input {
				if _, pf := fieldOf(m.info, ix.Index); pf != nil {
					out = pf
				}
			}
		}
		return true
	})
	return out
}

func isPosField(m *lexerModel, fld *types.Var) bool {
	for _, p := range m.posF {
		if p == fld {
			return true
		}
	}
	return false
}

// lowerGuarded: at ix, fld >= k is known from an enclosing `if fld >= c` / `fld > c` or from a preceding
// top-level `if fld < c { return }` / `fld <= c` of the same function.
func lowerGuarded(w *World, info *types.Info, f *FuncInfo, at ast.Node, fld *types.Var, k int64) bool {
	implies := func(cond ast.Expr, truth bool) bool {
		for _, cj := range conjuncts(cond) {
			be, ok := unparen(cj).(*ast.BinaryExpr)
			if !ok {
				continue
			}
			if _, g := fieldOf(info, be.X); g != fld {
				continue
			}
			c, ok := constInt(info, be.Y)
			if !ok {
				continue
			}
			if truth {
				if (be.Op == token.GEQ && c >= k) || (be.Op == token.GTR && c+1 >= k) {
					return true
				}
			} else if len(conjuncts(cond)) == 1 {
				if (be.Op == token.LSS && c >= k) || (be.Op == token.LEQ && c+1 >= k) {
					return true
				}
			}
		}
		return false
	}
	var child ast.Node = at
	for p := w.Parent(at); p != nil; child, p = p, w.Parent(p) {
		if ifs, ok := p.(*ast.IfStmt); ok && child == ast.Node(ifs.Body) && implies(ifs.Cond, true) {
			return true
		}
	}
	for _, st := range f.Decl.Body.List {
		if st.End() > at.Pos() {
			break
		}
		if ifs, ok := st.(*ast.IfStmt); ok && ifs.Else == nil && ifs.Init == nil && terminates(ifs.Body.List) && implies(ifs.Cond, false) {
			return true
		}
	}
	return false
}

func callersRequireNonNul(w *World, m *lexerModel, f *FuncInfo) bool {
	n := 0
	ok := true
	for _, g := range m.methods {
		for _, c := range callsIn(g.Decl.Body, false) {
			if calleeOf(m.info, c) != f.Obj {
				continue
			}
			n++
			inLoop := false
			for p := w.Parent(c); p != nil; p = w.Parent(p) {
				if l, isFor := p.(*ast.ForStmt); isFor && l.Cond != nil {
					if v, evalOK := m.evalBytePred(m.info, l.Cond, m.isChField, 0); evalOK && !v {
						inLoop = true
					}
				}
			}
			if !inLoop && !leftAtNul(w, m, f, c) {
				ok = false
			}
		}
	}
	return ok && n > 0
}

// leftAtNul: the call c sits behind `if <cond true at NUL> { break | return | continue }` in the same block (or in a
// block around it), and nothing between that test and the call moves the lexer (no call of a lexer method that
// writes a field of the lexer, directly or through another method).
func leftAtNul(w *World, m *lexerModel, f *FuncInfo, c *ast.CallExpr) bool {
	pure := map[*FuncInfo]int8{}
	var isPure func(g *FuncInfo, d int) bool
	isPure = func(g *FuncInfo, d int) bool {
		if g == nil || g.Decl == nil || g.Decl.Body == nil || d > 6 {
			return false
		}
		switch pure[g] {
		case 1, 2:
			return true
		case 3:
			return false
		}
		pure[g] = 1
		ok := true
		ast.Inspect(g.Decl.Body, func(n ast.Node) bool {
			switch x := n.(type) {
			case *ast.AssignStmt:
				for _, l := range x.Lhs {
					if _, fld := fieldOf(m.info, l); fld != nil {
						ok = false
					}
				}
			case *ast.IncDecStmt:
				if _, fld := fieldOf(m.info, x.X); fld != nil {
					ok = false
				}
			case *ast.CallExpr:
				if !stillCall(w, m, x, isPure, d) {
					ok = false
				}
			}
			return ok
		})
		if ok {
			pure[g] = 2
		} else {
			pure[g] = 3
		}
		return ok
	}
	still := func(n ast.Node, before token.Pos) bool {
		ok := true
		ast.Inspect(n, func(x ast.Node) bool {
			if call, isCall := x.(*ast.CallExpr); isCall && (before == token.NoPos || call.End() <= before) {
				if !stillCall(w, m, call, isPure, 0) {
					ok = false
				}
			}
			return ok
		})
		return ok
	}
	var child ast.Node = c
	for p := w.Parent(c); p != nil; child, p = p, w.Parent(p) {
		switch x := p.(type) {
		case *ast.FuncDecl, *ast.FuncLit:
			return false
		case *ast.ForStmt, *ast.RangeStmt:
			// a test outside the loop says nothing about a later iteration
			_ = x
			return false
		case *ast.BlockStmt:
			idx := -1
			for i, s := range x.List {
				if ast.Node(s) == child {
					idx = i
				}
			}
			for i := idx - 1; i >= 0; i-- {
				if ifs, isIf := x.List[i].(*ast.IfStmt); isIf && ifs.Init == nil && ifs.Else == nil && terminates(ifs.Body.List) {
					if v, evalOK := m.evalBytePred(m.info, ifs.Cond, m.isChField, 0); evalOK && v {
						// everything between the test and the call leaves the lexer where it is
						quiet := still(x.List[idx], c.Pos())
						for j := i + 1; j < idx && quiet; j++ {
							quiet = still(x.List[j], token.NoPos)
						}
						if quiet {
							return true
						}
					}
				}
			}
			// the statements before this one, in this block, must not move the lexer either if we go on outwards
			for j := 0; j < idx; j++ {
				if !still(x.List[j], token.NoPos) {
					return false
				}
			}
		}
	}
	return false
}

// stillCall: the call does not move the lexer: a builtin, a conversion, a function outside the lexer type, or a
// method of the lexer that writes none of its fields.
func stillCall(w *World, m *lexerModel, call *ast.CallExpr, isPure func(*FuncInfo, int) bool, d int) bool {
	if tv, ok := m.info.Types[call.Fun]; ok && (tv.IsType() || tv.IsBuiltin()) {
		return true
	}
	callee := calleeOf(m.info, call)
	if callee == nil {
		return false
	}
	fn := callee
	sig, _ := fn.Type().(*types.Signature)
	if sig == nil || sig.Recv() == nil {
		// a plain function: it moves the lexer only when it is handed the lexer
		for _, a := range call.Args {
			if t := m.info.TypeOf(a); t != nil {
				if pt, isPtr := t.(*types.Pointer); isPtr && types.Identical(pt.Elem(), m.typ) {
					return false
				}
			}
		}
		return true
	}
	rt := sig.Recv().Type()
	if pt, isPtr := rt.(*types.Pointer); isPtr {
		rt = pt.Elem()
	}
	if !types.Identical(rt, m.typ) {
		return true
	}
	return isPure(w.FuncOf(callee), d+1)
}

// ---- R9: no typed nil --------------------------------------------------------

// typedNilRule: a pointer to an AST node that may be nil must not be converted
// to one of the AST interfaces (return, assignment, argument, literal field,
// append): the interface would be non-nil, every `x != nil` test downstream
// would pass, and the first method call on it dereferences nil.
func typedNilRule(r *Run, rule string) {
	w := r.W
	pm := w.parserModel()
	if len(pm.problems) > 0 {
		r.Lost(rule, "parser model")
		return
	}
	nm := buildNilModel(w)
	isPtr := func(t types.Type) bool {
		_, ok := t.(*types.Pointer)
		return ok && isASTRef(t)
	}
	isIface := func(t types.Type) bool {
		if t == nil {
			return false
		}
		_, ok := t.Underlying().(*types.Interface)
		return ok && isASTRef(t)
	}
	for _, f := range w.Funcs("parser") {
		info := f.Pkg.TypesInfo
		check := func(e ast.Expr, target types.Type, what string) {
			tv, ok := info.Types[e]
			if !ok || !isPtr(tv.Type) || !isIface(target) {
				return
			}
			con := what + " " + short(w.Fset, e) + " as " + types.TypeString(target, func(p *types.Package) string { return p.Name() })
			if nm.mayNil(f, e, e.Pos()) {
				r.Bad(rule, f.Name(), con, w.Pos(e.Pos()),
					"a node pointer that may be nil is converted to an AST interface: the result is a non-nil interface holding a nil pointer, the callers' nil tests pass and the next method call on it panics")
			} else {
				r.Ok(rule, f.Name(), con, w.Pos(e.Pos()), "the pointer is non-nil on every path")
			}
		}
		// result types of the innermost enclosing function (declaration or literal)
		resultsOf := func(n ast.Node) *types.Tuple {
			for p := w.Parent(n); p != nil; p = w.Parent(p) {
				switch x := p.(type) {
				case *ast.FuncLit:
					if sig, ok := info.Types[x].Type.(*types.Signature); ok {
						return sig.Results()
					}
					return nil
				case *ast.FuncDecl:
					return f.Obj.Type().(*types.Signature).Results()
				}
			}
			return nil
		}
		ast.Inspect(f.Decl.Body, func(n ast.Node) bool {
			switch x := n.(type) {
			case *ast.ReturnStmt:
				if res := resultsOf(x); res != nil && res.Len() == len(x.Results) {
					for i, e := range x.Results {
						check(e, res.At(i).Type(), "return")
					}
				}
			case *ast.AssignStmt:
				if len(x.Lhs) == len(x.Rhs) {
					for i, l := range x.Lhs {
						if tv, ok := info.Types[l]; ok {
							check(x.Rhs[i], tv.Type, "assignment of")
						} else if id, ok := l.(*ast.Ident); ok {
							if o := info.Defs[id]; o != nil {
								check(x.Rhs[i], o.Type(), "assignment of")
							}
						}
					}
				}
			case *ast.ValueSpec:
				if x.Type != nil && len(x.Values) == len(x.Names) {
					for _, v := range x.Values {
						check(v, info.Types[x.Type].Type, "declaration with")
					}
				}
			case *ast.CompositeLit:
				tv, ok := info.Types[x]
				if !ok {
					return true
				}
				switch u := tv.Type.Underlying().(type) {
				case *types.Struct:
					for _, el := range x.Elts {
						if kv, ok := el.(*ast.KeyValueExpr); ok {
							if k, ok := kv.Key.(*ast.Ident); ok {
								if fld, ok := info.Uses[k].(*types.Var); ok {
									check(kv.Value, fld.Type(), "field value")
								}
							}
						}
					}
				case *types.Slice:
					for _, el := range x.Elts {
						check(el, u.Elem(), "element")
					}
				}
			case *ast.CallExpr:
				if builtinName(info, x) == "append" && len(x.Args) > 1 {
					if sl, ok := info.Types[x.Args[0]].Type.Underlying().(*types.Slice); ok {
						for _, a := range x.Args[1:] {
							check(a, sl.Elem(), "appended")
						}
					}
					return true
				}
				if _, isConv := isConversion(info, x); isConv {
					if len(x.Args) == 1 {
						check(x.Args[0], info.Types[x].Type, "conversion of")
					}
					return true
				}
				if sig, ok := info.Types[x.Fun].Type.(*types.Signature); ok {
					for i, a := range x.Args {
						if i < sig.Params().Len() && !(sig.Variadic() && i >= sig.Params().Len()-1) {
							check(a, sig.Params().At(i).Type(), "argument")
						}
					}
				}
			}
			return true
		})
	}
}

// ---- R10: printers are linear -----------------------------------------------

// linearPrintersRule: the AST printers are mutually recursive over the tree and
// the parser prints every top-level statement. A printer that prints the same
// child twice on one path costs 2^depth on nested blocks (Parse "hangs" on a
// small input). On every path each child expression is printed at most once.
func linearPrintersRule(r *Run, rule string) {
	w := r.W
	// functions of the ast package that print (call String on) one of their node parameters
	printsParam := map[*types.Func]map[int]bool{}
	isNodeString := func(info *types.Info, c *ast.CallExpr) ast.Expr {
		sel, ok := unparen(c.Fun).(*ast.SelectorExpr)
		if !ok || len(c.Args) != 0 {
			return nil
		}
		s := info.Selections[sel]
		if s == nil || s.Kind() != types.MethodVal {
			return nil
		}
		fn, ok := s.Obj().(*types.Func)
		if !ok || fn.Name() != "String" {
			return nil
		}
		if tv, ok := info.Types[sel.X]; !ok || !isASTRef(tv.Type) {
			return nil
		}
		return sel.X
	}
	for _, f := range w.Funcs("ast") {
		sig := f.Obj.Type().(*types.Signature)
		for _, c := range callsIn(f.Decl.Body, true) {
			if x := isNodeString(f.Pkg.TypesInfo, c); x != nil {
				for i := 0; i < sig.Params().Len(); i++ {
					if objOf(f.Pkg.TypesInfo, x) == sig.Params().At(i) {
						if printsParam[f.Obj] == nil {
							printsParam[f.Obj] = map[int]bool{}
						}
						printsParam[f.Obj][i] = true
					}
				}
			}
		}
	}
	for _, f := range w.Funcs("ast") {
		info := f.Pkg.TypesInfo
		// every printed child expression in this function
		type site struct {
			call *ast.CallExpr
			recv ast.Expr
		}
		printed := func(n ast.Node) []site {
			var out []site
			for _, c := range nodeCalls(n) {
				if x := isNodeString(info, c); x != nil {
					out = append(out, site{c, x})
					continue
				}
				if cal := calleeOf(info, c); cal != nil && printsParam[cal] != nil {
					for i, a := range c.Args {
						if printsParam[cal][i] {
							out = append(out, site{c, a})
						}
					}
				}
			}
			return out
		}
		keys := map[string][]site{}
		for _, s := range printed(f.Decl.Body) {
			k := types.ExprString(unparen(s.recv))
			keys[k] = append(keys[k], s)
		}
		if len(keys) == 0 {
			continue
		}
		rangeVars := map[*ast.Ident]bool{}
		inspectBody(f.Decl.Body, true, func(n ast.Node) bool {
			if rs, ok := n.(*ast.RangeStmt); ok {
				if id, ok := rs.Key.(*ast.Ident); ok {
					rangeVars[id] = true
				}
				if id, ok := rs.Value.(*ast.Ident); ok {
					rangeVars[id] = true
				}
			}
			return true
		})
		g := cfgOf(info, f.Decl.Body)
		var ks []string
		for k := range keys {
			ks = append(ks, k)
		}
		sort.Strings(ks)
		for _, k := range ks {
			sites := keys[k]
			// objects the receiver expression mentions
			mentions := map[types.Object]bool{}
			ast.Inspect(sites[0].recv, func(n ast.Node) bool {
				if id, ok := n.(*ast.Ident); ok {
					if o := info.Uses[id]; o != nil {
						mentions[o] = true
					}
				}
				return true
			})
			assigns := func(n ast.Node) bool {
				switch x := n.(type) {
				case *ast.Ident:
					if rangeVars[x] {
						if o := info.Defs[x]; o != nil && mentions[o] {
							return true
						}
						if o := info.Uses[x]; o != nil && mentions[o] {
							return true
						}
					}
				case *ast.AssignStmt:
					for _, l := range x.Lhs {
						if id, ok := l.(*ast.Ident); ok {
							if o := objOf(info, id); o != nil && mentions[o] {
								return true
							}
						}
					}
				case *ast.IncDecStmt:
					if o := objOf(info, x.X); o != nil && mentions[o] {
						return true
					}
				}
				return false
			}
			bad := false
			var where ast.Node
			transfer := func(n ast.Node, st int) int {
				if assigns(n) {
					st = 0
				}
				for _, s := range printed(n) {
					if types.ExprString(unparen(s.recv)) == k {
						st++
					}
				}
				if st > 2 {
					st = 2
				}
				return st
			}
			// forward exploration; entering a range body rebinds the loop variables
			type item struct {
				b  *cfg.Block
				st int
			}
			seen := map[item]bool{}
			work := []item{{g.Blocks[0], 0}}
			for len(work) > 0 {
				it := work[len(work)-1]
				work = work[:len(work)-1]
				if it.b.Kind == cfg.KindRangeBody {
					if rs, ok := it.b.Stmt.(*ast.RangeStmt); ok {
						for _, kv := range []ast.Expr{rs.Key, rs.Value} {
							if id, ok := kv.(*ast.Ident); ok && assigns(id) {
								it.st = 0
							}
						}
					}
				}
				if seen[it] {
					continue
				}
				seen[it] = true
				st := it.st
				for _, n := range it.b.Nodes {
					st = transfer(n, st)
					if st >= 2 && !bad {
						bad, where = true, n
					}
				}
				for _, sc := range it.b.Succs {
					work = append(work, item{sc, st})
				}
			}
			con := "prints " + k
			if bad {
				r.Bad(rule, f.Name(), con, w.Pos(where.Pos()),
					"the same child is printed more than once on one path: printers recurse over the tree, so this costs 2^depth on nested blocks and Parse (which prints every statement) does not return in practice")
			} else {
				r.Ok(rule, f.Name(), con, w.Pos(sites[0].call.Pos()), "printed at most once on every path")
			}
		}
	}
}

// relativeReadsBounded: every index at which f reads the input is, on every way the value can be formed
// (through phis), <cursor field> - k with k >= 1 where either k is within the field's known lower bound
// (read position >= 1, position >= 0) or the value was found >= 0 before it reached the index.
func relativeReadsBounded(w *World, m *lexerModel, f *FuncInfo) bool {
	fn := w.SSAFunc(f)
	if fn == nil {
		return false
	}
	fieldBase := func(v ssa.Value) int64 {
		ld, ok := v.(*ssa.UnOp)
		if !ok || ld.Op != token.MUL {
			return -1
		}
		fa, ok := ld.X.(*ssa.FieldAddr)
		if !ok {
			return -1
		}
		pt, ok := fa.X.Type().Underlying().(*types.Pointer)
		if !ok {
			return -1
		}
		st, ok := pt.Elem().Underlying().(*types.Struct)
		if !ok || fa.Field >= st.NumFields() {
			return -1
		}
		fld := st.Field(fa.Field)
		switch {
		case fld == m.aheadField():
			return 1
		case isPosField(m, fld):
			return 0
		}
		return -1
	}
	nonNegAt := func(v ssa.Value, facts []edgeFact) bool {
		for _, fct := range facts {
			cond, truth := fct.cond, fct.truth
			for {
				u, ok := cond.(*ssa.UnOp)
				if !ok || u.Op != token.NOT {
					break
				}
				cond, truth = u.X, !truth
			}
			bo, ok := cond.(*ssa.BinOp)
			if !ok || bo.X != v {
				continue
			}
			c, isC := bo.Y.(*ssa.Const)
			if !isC || c.Value == nil || c.Value.Kind() != constant.Int {
				continue
			}
			k, _ := constant.Int64Val(c.Value)
			if (bo.Op == token.LSS && !truth && k >= 0) || (bo.Op == token.GEQ && truth && k >= 0) || (bo.Op == token.GTR && truth && k >= -1) || (bo.Op == token.LEQ && !truth && k >= -1) {
				return true
			}
		}
		return false
	}
	var okValue func(v ssa.Value, at *ssa.BasicBlock, extra []edgeFact, depth int) bool
	okValue = func(v ssa.Value, at *ssa.BasicBlock, extra []edgeFact, depth int) bool {
		if depth > 4 {
			return false
		}
		switch x := v.(type) {
		case *ssa.Phi:
			for i, e := range x.Edges {
				pred := x.Block().Preds[i]
				if !okValue(e, pred, edgeFacts(pred, x.Block()), depth+1) {
					return false
				}
			}
			return len(x.Edges) > 0
		case *ssa.BinOp:
			// cursor - back, with back one of several constants chosen by a test of the cursor
			if ph, isPhi := x.Y.(*ssa.Phi); isPhi && x.Op == token.SUB {
				base := fieldBase(x.X)
				if base < 0 || len(ph.Edges) == 0 {
					return false
				}
				for i, e := range ph.Edges {
					kc, isC := e.(*ssa.Const)
					if !isC || kc.Value == nil || kc.Value.Kind() != constant.Int {
						return false
					}
					k, _ := constant.Int64Val(kc.Value)
					if k < 1 {
						return false
					}
					if k <= base {
						continue
					}
					pred := ph.Block().Preds[i]
					facts := append(append([]edgeFact(nil), dominatingFacts(pred)...), edgeFacts(pred, ph.Block())...)
					if !fieldAtLeast(x.X, k, facts) {
						return false
					}
				}
				return true
			}
			c, isC := x.Y.(*ssa.Const)
			if x.Op != token.SUB || !isC || c.Value == nil || c.Value.Kind() != constant.Int {
				return false
			}
			k, _ := constant.Int64Val(c.Value)
			base := fieldBase(x.X)
			if base < 0 || k < 1 {
				return false
			}
			if k <= base {
				return true
			}
			return nonNegAt(v, append(append([]edgeFact(nil), dominatingFacts(at)...), extra...))
		}
		return false
	}
	n := 0
	for _, b := range fn.Blocks {
		for _, ins := range b.Instrs {
			var idx ssa.Value
			switch x := ins.(type) {
			case *ssa.Lookup:
				if bt, isB := x.X.Type().Underlying().(*types.Basic); isB && bt.Info()&types.IsString != 0 {
					idx = x.Index
				}
			case *ssa.Index:
				idx = x.Index
			}
			if idx == nil {
				continue
			}
			n++
			if !okValue(idx, b, nil, 0) {
				return false
			}
		}
	}
	return n > 0
}

// fieldAtLeast: the facts say that the field read by ld (any load of the same field of the same object) is >= k.
func fieldAtLeast(ld ssa.Value, k int64, facts []edgeFact) bool {
	sameField := func(v ssa.Value) bool {
		a, ok1 := ld.(*ssa.UnOp)
		b, ok2 := v.(*ssa.UnOp)
		if !ok1 || !ok2 || a.Op != token.MUL || b.Op != token.MUL {
			return false
		}
		fa, ok1 := a.X.(*ssa.FieldAddr)
		fb, ok2 := b.X.(*ssa.FieldAddr)
		return ok1 && ok2 && fa.Field == fb.Field && fa.X == fb.X
	}
	for _, fct := range facts {
		cond, truth := fct.cond, fct.truth
		for {
			u, ok := cond.(*ssa.UnOp)
			if !ok || u.Op != token.NOT {
				break
			}
			cond, truth = u.X, !truth
		}
		bo, ok := cond.(*ssa.BinOp)
		if !ok || !sameField(bo.X) {
			continue
		}
		var c int64
		switch y := bo.Y.(type) {
		case *ssa.Const:
			if y.Value == nil || y.Value.Kind() != constant.Int {
				continue
			}
			c, _ = constant.Int64Val(y.Value)
		case *ssa.Phi:
			// compared with the very value that is subtracted later (`if readPosition < back`): on the edge where
			// back keeps its first value the comparison was against that value
			continue
		default:
			continue
		}
		// F < c false / F >= c true  =>  F >= c ; F > c true / F <= c false  =>  F >= c+1
		if (bo.Op == token.LSS && !truth && c >= k) || (bo.Op == token.GEQ && truth && c >= k) || (bo.Op == token.GTR && truth && c+1 >= k) || (bo.Op == token.LEQ && !truth && c+1 >= k) {
			return true
		}
	}
	return false
}
