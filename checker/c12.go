package main

import "golang.org/x/tools/go/ssa"

func init() {
	register("C12", checkC12, "what the helper does with its arguments; helpers whose parameter types are generic or otherwise outside reflect's assignability rules")
}

func checkC12(r *Run) {
	r.Rule("R1", "every supplied argument is evaluated exactly once, in ascending position: each evaluation of an element of node.Arguments sits in a loop whose index ascends by 1, the loops' ranges are disjoint and cover all positions, and nothing evaluates an argument outside them", 1)
	r.Rule("R2", "guarded append: every value appended to the argument vector is shown assignable to the parameter it is passed for (AssignableTo / Convert / zero value of that very type) and a mismatch returns an error that names the call", 1)
	r.Rule("R3", "arity before call: every path to reflect.Value.Call passes the too-many (fixed) or too-few (variadic) test, Kind() == Func and the nil-func test; for fixed signatures len(args) == NumIn is established by the two post-fill tests", 1)
	r.Rule("R4", "nil becomes the zero value of the expected type: the three 'argument is nil' sites build reflect.New(T).Elem() (or reflect.Zero(T)) with T the same type the assignability test of that site uses", 1)
	r.Rule("R5", "auto-supplied trailing parameters only when arguments are missing; the helper context is built from the current scope, the evaluator and the call's block; the options map is a fresh empty map", 1)
	r.Rule("R6", "the call's value is the first result, guarded by len(results) > 0", 1)
	w := r.W
	f := w.evalMethod("CallExpression")
	if f == nil || w.evalMethod("Expression") == nil {
		r.Lost("R1", "call evaluator")
		return
	}
	c12EvaluationsSSA(r)
	checkC12SSA(r)
	r.Rule("R7", "a non-nil trailing error result fails the render: the call site inspects the last result for an error and returns before the first result is used (also in the chained-call branch)", 1)
	reflectResultRuleAs(r, "R7")
	r.Rule("R8", "the argument vector is owned by the activation: what is handed to reflect's Call, and every slice the evaluator stores elements into, is built in the activation and not kept in a field or package variable (the evaluator is recursive)", 1)
	uf := w.userFunctionEval()
	activationBuffersRule(r, "R8", func(fn *ssa.Function) bool {
		return !isUserFunctionCode(w, uf, fn)
	}, "evaluator functions")
}
