package main

import (
	"fmt"
	"go/ast"
	"go/token"
	"go/types"
	"strings"
)

func init() {
	register("C12", checkC12, "what the helper does with its arguments; helpers whose parameter types are generic or otherwise outside reflect's assignability rules")
}

func checkC12(r *Run) {
	r.Rule("R1", "every supplied argument is evaluated exactly once, in ascending position: each evaluation of an element of node.Arguments sits in a loop whose index ascends by 1, the loops' ranges are disjoint and cover all positions, and nothing evaluates an argument outside them", 1)
	r.Rule("R2", "guarded append: every value appended to the argument vector is shown assignable to the parameter it is passed for (AssignableTo / Convert / zero value of that very type) and a mismatch returns an error that names the call", 1)
	r.Rule("R3", "arity before call: every path to reflect.Value.Call passes the too-many (fixed) or too-few (variadic) test, Kind() == Func and the nil-func test; for fixed signatures len(args) == NumIn is established by the two post-fill tests", 1)
	r.Rule("R4", "nil becomes the zero value of the expected type: the three 'argument is nil' sites build reflect.New(T).Elem() (or reflect.Zero(T)) with T the same type the assignability test of that site uses", 1)
	r.Rule("R5", "auto-supplied trailing parameters only when arguments are missing; the helper context is built from the current scope, the evaluator and the call's block; the options map is a fresh empty map", 1)
	r.Rule("R6", "the call's value is the first result, guarded by len(results) > 0", 1)
	w := r.W
	f := w.evalMethod("CallExpression")
	if f == nil || w.evalMethod("Expression") == nil {
		r.Lost("R1", "call evaluator")
		return
	}
	c12EvaluationsSSA(r)
	checkC12SSA(r)
	r.Rule("R7", "a non-nil trailing error result fails the render: the call site inspects the last result for an error and returns before the first result is used (also in the chained-call branch)", 1)
	reflectResultRuleAs(r, "R7")
}

// argsAliases: node.Arguments and locals assigned once from it.
func c12ArgAliases(info *types.Info, f *FuncInfo) (isArgs func(ast.Expr) bool, isLenArgs func(ast.Expr) bool) {
	node := f.Obj.Type().(*types.Signature).Params().At(0)
	alias := map[types.Object]bool{}
	lenAlias := map[types.Object]bool{}
	direct := func(e ast.Expr) bool {
		bx, fld := fieldOf(info, e)
		return fld != nil && fld.Name() == "Arguments" && objOf(info, bx) == node
	}
	isArgs = func(e ast.Expr) bool {
		if direct(e) {
			return true
		}
		o := objOf(info, e)
		return o != nil && alias[o]
	}
	isLenArgs = func(e ast.Expr) bool {
		if c, ok := unparen(e).(*ast.CallExpr); ok && builtinName(info, c) == "len" && isArgs(c.Args[0]) {
			return true
		}
		o := objOf(info, e)
		return o != nil && lenAlias[o]
	}
	for round := 0; round < 2; round++ {
		inspectBody(f.Decl.Body, true, func(n ast.Node) bool {
			as, ok := n.(*ast.AssignStmt)
			if !ok || len(as.Lhs) != 1 || len(as.Rhs) != 1 || as.Tok != token.DEFINE {
				return true
			}
			if o := objOf(info, as.Lhs[0]); o != nil {
				if direct(as.Rhs[0]) || isArgs(as.Rhs[0]) {
					alias[o] = true
				}
				if isLenArgs(as.Rhs[0]) {
					lenAlias[o] = true
				}
			}
			return true
		})
	}
	return
}

func c12Evaluations(r *Run, f *FuncInfo, evalExpr *FuncInfo) {
	w := r.W
	info := f.Pkg.TypesInfo
	isArgs, isLenArgs := c12ArgAliases(info, f)
	type evalSite struct {
		call  *ast.CallExpr
		kind  string // range | counted
		loop  ast.Node
		index types.Object
	}
	var sites []evalSite
	for _, c := range callsIn(f.Decl.Body, true) {
		if calleeOf(info, c) != evalExpr.Obj || len(c.Args) != 1 {
			continue
		}
		a := unparen(c.Args[0])
		// element of the argument list?
		var elemIdx ast.Expr
		isElem := false
		if ix, ok := a.(*ast.IndexExpr); ok && isArgs(ix.X) {
			isElem, elemIdx = true, ix.Index
		}
		var rs *ast.RangeStmt
		if o := objOf(info, a); o != nil {
			for p := w.Parent(c); p != nil; p = w.Parent(p) {
				if rr, ok := p.(*ast.RangeStmt); ok && rr.Value != nil && objOf(info, rr.Value) == o && isArgs(rr.X) {
					rs, isElem = rr, true
				}
			}
		}
		if !isElem {
			continue
		}
		con := "evaluation " + short(w.Fset, c)
		if rs != nil {
			sites = append(sites, evalSite{c, "range", rs, nil})
			r.Ok("R1", f.Name(), con, w.Pos(c.Pos()), "range over the argument list: each position once, ascending")
			continue
		}
		iv := objOf(info, elemIdx)
		var loop *ast.ForStmt
		for p := w.Parent(c); p != nil; p = w.Parent(p) {
			if l, ok := p.(*ast.ForStmt); ok {
				loop = l
				break
			}
		}
		if iv == nil || loop == nil {
			r.Bad("R1", f.Name(), con, w.Pos(c.Pos()), "an argument is evaluated outside a loop over the argument positions (it may be evaluated twice, or out of order)")
			continue
		}
		inc, ok := loop.Post.(*ast.IncDecStmt)
		if !ok || inc.Tok != token.INC || objOf(info, inc.X) != iv {
			r.Bad("R1", f.Name(), con, w.Pos(c.Pos()), "the loop index does not ascend by one")
			continue
		}
		written := false
		inspectBody(loop.Body, true, func(n ast.Node) bool {
			switch s := n.(type) {
			case *ast.AssignStmt:
				for _, l := range s.Lhs {
					if objOf(info, l) == iv {
						written = true
					}
				}
			case *ast.IncDecStmt:
				if objOf(info, s.X) == iv {
					written = true
				}
			}
			return true
		})
		if written {
			r.Bad("R1", f.Name(), con, w.Pos(c.Pos()), "the loop index is modified inside the loop")
			continue
		}
		sites = append(sites, evalSite{c, "counted", loop, iv})
		r.Ok("R1", f.Name(), con, w.Pos(c.Pos()), "counted loop, index +1 per iteration")
	}
	// the counted loops form a chain over one shared index: [0, N-1) then [N-1, len)
	var counted []evalSite
	for _, s := range sites {
		if s.kind == "counted" {
			counted = append(counted, s)
		}
	}
	if len(counted) == 2 && counted[0].index == counted[1].index {
		l1, l2 := counted[0].loop.(*ast.ForStmt), counted[1].loop.(*ast.ForStmt)
		if l1.Pos() > l2.Pos() {
			l1, l2 = l2, l1
		}
		startsAtZero := false
		if as, ok := l1.Init.(*ast.AssignStmt); ok && len(as.Rhs) == 1 {
			if v, ok := constInt(info, as.Rhs[0]); ok && v == 0 && objOf(info, as.Lhs[0]) == counted[0].index {
				startsAtZero = true
			}
		}
		continues := l2.Init == nil
		coversAll := false
		if be, ok := unparen(l2.Cond).(*ast.BinaryExpr); ok && be.Op == token.LSS && objOf(info, be.X) == counted[0].index && isLenArgs(be.Y) {
			coversAll = true
		}
		// nothing between the loops writes the index
		between := false
		inspectBody(f.Decl.Body, true, func(n ast.Node) bool {
			if as, ok := n.(*ast.AssignStmt); ok && as.Pos() > l1.End() && as.End() < l2.Pos() {
				for _, l := range as.Lhs {
					if objOf(info, l) == counted[0].index {
						between = true
					}
				}
			}
			return true
		})
		if startsAtZero && continues && coversAll && !between {
			r.Ok("R1", f.Name(), "variadic positions [0,N-1) then [N-1,len) on one shared counter", w.Pos(l1.Pos()), "disjoint, ascending, covering")
		} else {
			r.Bad("R1", f.Name(), "variadic position ranges", w.Pos(l1.Pos()), "the fixed and the variadic part must be walked by one counter: from 0, continued without reset, up to the number of supplied arguments")
		}
	} else if len(counted) != 0 {
		r.Bad("R1", f.Name(), fmt.Sprintf("%d counted evaluation loops", len(counted)), w.Pos(f.Decl.Pos()), "expected the two loops of the variadic branch sharing one counter")
	}
	nRange := 0
	for _, s := range sites {
		if s.kind == "range" {
			nRange++
		}
	}
	if nRange != 1 {
		r.Bad("R1", f.Name(), fmt.Sprintf("%d range evaluation loops", nRange), w.Pos(f.Decl.Pos()), "expected exactly one range over the argument list in the fixed-arity branch")
	}
}

// appendsToArgs finds `X = append(X, v)` statements where X is the
// []reflect.Value argument vector, in f and its closures.
func c12ArgVector(info *types.Info, f *FuncInfo) types.Object {
	var vec types.Object
	ast.Inspect(f.Decl.Body, func(n ast.Node) bool {
		as, ok := n.(*ast.AssignStmt)
		if !ok || len(as.Lhs) != 1 || len(as.Rhs) != 1 {
			return true
		}
		o := objOf(info, as.Lhs[0])
		if o == nil {
			return true
		}
		if sl, ok := o.Type().(*types.Slice); ok && namedIs(sl.Elem(), "reflect", "Value") && vec == nil {
			vec = o
		}
		return true
	})
	return vec
}

func c12Appends(r *Run, f *FuncInfo) {
	w := r.W
	info := f.Pkg.TypesInfo
	vec := c12ArgVector(info, f)
	if vec == nil {
		r.Lost("R2", "argument vector ([]reflect.Value) of the call evaluator")
		return
	}
	node := f.Obj.Type().(*types.Signature).Params().At(0)
	ast.Inspect(f.Decl.Body, func(n ast.Node) bool {
		as, ok := n.(*ast.AssignStmt)
		if !ok || len(as.Lhs) != 1 || len(as.Rhs) != 1 || objOf(info, as.Lhs[0]) != vec {
			return true
		}
		c, ok := unparen(as.Rhs[0]).(*ast.CallExpr)
		if !ok || builtinName(info, c) != "append" {
			return true
		}
		if objOf(info, c.Args[0]) != vec {
			r.Bad("R2", f.Name(), "argument vector rebuilt "+short(w.Fset, as), w.Pos(as.Pos()), "the argument vector must only grow by appending")
			return true
		}
		for _, v := range c.Args[1:] {
			con := "append " + short(w.Fset, v)
			why, expected := c12AppendGuard(w, info, f, as, v)
			if why == "" {
				r.Bad("R2", f.Name(), con, w.Pos(as.Pos()),
					"a value is put into the argument vector without being shown assignable to the parameter type: reflect.Value.Call panics on a mismatch instead of the evaluator returning an error")
				continue
			}
			r.Ok("R2", f.Name(), con, w.Pos(as.Pos()), why)
			// R4: the nil site of this append
			c12NilSite(r, f, as, v, expected)
		}
		return true
	})
	// mismatch errors name the call
	n := 0
	ast.Inspect(f.Decl.Body, func(nd ast.Node) bool {
		ifs, ok := nd.(*ast.IfStmt)
		if !ok {
			return true
		}
		u, ok := unparen(ifs.Cond).(*ast.UnaryExpr)
		if !ok || u.Op != token.NOT {
			return true
		}
		cc, ok := unparen(u.X).(*ast.CallExpr)
		if !ok || !isTypeMethod(info, cc, "AssignableTo") {
			return true
		}
		if len(ifs.Body.List) != 1 {
			return true
		}
		ret, ok := ifs.Body.List[0].(*ast.ReturnStmt)
		if !ok {
			return true
		}
		n++
		names := false
		ast.Inspect(ret, func(m ast.Node) bool {
			if e, ok := m.(ast.Expr); ok {
				if bx, fld := fieldOf(info, e); fld != nil && fld.Name() == "Function" && objOf(info, bx) == node {
					names = true
				}
			}
			return true
		})
		if names && isReturnNilErr(info, ret) {
			r.Ok("R2", f.Name(), "mismatch error names the call", w.Pos(ret.Pos()), "error mentions node.Function")
		} else {
			r.Bad("R2", f.Name(), "mismatch error "+short(w.Fset, ret), w.Pos(ret.Pos()), "an argument that is not assignable must be reported by an error that names the call")
		}
		return true
	})
}

func isTypeMethod(info *types.Info, c *ast.CallExpr, name string) bool {
	cal := calleeOf(info, c)
	if cal == nil || cal.Name() != name {
		return false
	}
	sig := cal.Type().(*types.Signature)
	return sig.Recv() != nil && namedIs(sig.Recv().Type(), "reflect", "Type")
}

// c12AppendGuard explains why the appended value is assignable to the
// expected parameter type; it returns "" if no accepted justification is found,
// and the expression denoting the expected type when there is one.
func c12AppendGuard(w *World, info *types.Info, f *FuncInfo, as *ast.AssignStmt, v ast.Expr) (string, ast.Expr) {
	v = unparen(v)
	list := parentBlock(f, as)
	var body ast.Node = f.Decl.Body
	if fl := enclosingFuncLit(w, as); fl != nil {
		body = fl.Body
	}
	// (a) an earlier statement in the same list: if !T.AssignableTo(E) { return ... } with T = v.Type()
	for _, st := range list {
		if st == ast.Stmt(as) {
			break
		}
		ifs, ok := st.(*ast.IfStmt)
		if !ok || len(ifs.Body.List) == 0 {
			continue
		}
		if _, isRet := ifs.Body.List[len(ifs.Body.List)-1].(*ast.ReturnStmt); !isRet {
			continue
		}
		u, ok := unparen(ifs.Cond).(*ast.UnaryExpr)
		if !ok || u.Op != token.NOT {
			continue
		}
		cc, ok := unparen(u.X).(*ast.CallExpr)
		if !ok || !isTypeMethod(info, cc, "AssignableTo") || len(cc.Args) != 1 {
			continue
		}
		recv := unparen(cc.Fun).(*ast.SelectorExpr).X
		if typeOfValue(info, body, recv, v) {
			return "dominated by 'if !" + short(w.Fset, cc) + " { return error }' on the type of the appended value", cc.Args[0]
		}
	}
	// (b) inside a switch/if arm whose condition establishes it
	var child ast.Node = as
	for p := w.Parent(as); p != nil; child, p = p, w.Parent(p) {
		var conds []ast.Expr
		switch x := p.(type) {
		case *ast.CaseClause:
			conds = x.List
		case *ast.IfStmt:
			if child == ast.Node(x.Body) {
				conds = conjuncts(x.Cond)
			}
		case *ast.FuncLit, *ast.FuncDecl:
			p = nil
		}
		if p == nil {
			break
		}
		for _, cnd := range conds {
			for _, d := range disjuncts(cnd) {
				cc, ok := unparen(d).(*ast.CallExpr)
				if !ok || len(cc.Args) != 1 {
					continue
				}
				recv := unparen(cc.Fun).(*ast.SelectorExpr).X
				switch {
				case isTypeMethod(info, cc, "AssignableTo"):
					// hv.Type().AssignableTo(arg) -> append hv ; PtrTo(hv.Type()).AssignableTo(arg) -> append pv (New(hv.Type()))
					if typeOfValue(info, body, recv, v) {
						return "under '" + short(w.Fset, cc) + "'", cc.Args[0]
					}
					if pc, ok := unparen(recv).(*ast.CallExpr); ok && (funcIs(calleeOf(info, pc), "reflect", "PtrTo") || funcIs(calleeOf(info, pc), "reflect", "PointerTo")) {
						if isNewOf(info, body, v, pc.Args[0]) {
							return "pointer to the value under '" + short(w.Fset, cc) + "'", cc.Args[0]
						}
					}
				case isTypeMethod(info, cc, "ConvertibleTo"):
					// hv.Type().ConvertibleTo(arg) -> append hv.Convert(arg)
					if conv, ok := v.(*ast.CallExpr); ok && methodIs(calleeOf(info, conv), "reflect", "Value", "Convert") && len(conv.Args) == 1 {
						if sameObjExpr(info, conv.Args[0], cc.Args[0]) {
							return "converted to the parameter type under '" + short(w.Fset, cc) + "'", cc.Args[0]
						}
					}
					// arg.ConvertibleTo(TypeOf(map[string]interface{}{})) -> append ValueOf(map[string]interface{}{})
					if vo, ok := v.(*ast.CallExpr); ok && funcIs(calleeOf(info, vo), "reflect", "ValueOf") && len(vo.Args) == 1 {
						if cl, ok := unparen(vo.Args[0]).(*ast.CompositeLit); ok && len(cl.Elts) == 0 {
							if _, unnamed := info.Types[cl].Type.(*types.Map); unnamed {
								if to, ok := unparen(cc.Args[0]).(*ast.CallExpr); ok && funcIs(calleeOf(info, to), "reflect", "TypeOf") {
									if tl, ok := unparen(to.Args[0]).(*ast.CompositeLit); ok && types.Identical(info.Types[tl].Type, info.Types[cl].Type) {
										return "frozen exception: a value of the UNNAMED type map[string]interface{} is assignable to every type convertible to it (identical underlying type, one side unnamed)", recv
									}
								}
							}
						}
					}
				}
			}
		}
	}
	// (c) the zero value of the parameter type itself: reflect.Indirect(reflect.New(arg)) / reflect.New(arg).Elem() / reflect.Zero(arg)
	if t := zeroOfType(info, body, v); t != nil {
		return "zero value of the parameter type " + short(w.Fset, t), t
	}
	return "", nil
}

func enclosingFuncLit(w *World, n ast.Node) *ast.FuncLit {
	for p := w.Parent(n); p != nil; p = w.Parent(p) {
		if fl, ok := p.(*ast.FuncLit); ok {
			return fl
		}
		if _, ok := p.(*ast.FuncDecl); ok {
			return nil
		}
	}
	return nil
}

// typeOfValue: t denotes v.Type() (directly or through a local assigned once from it).
func typeOfValue(info *types.Info, body ast.Node, t ast.Expr, v ast.Expr) bool {
	t = unparen(t)
	if c, ok := t.(*ast.CallExpr); ok && methodIs(calleeOf(info, c), "reflect", "Value", "Type") {
		return sameObjExpr(info, unparen(c.Fun).(*ast.SelectorExpr).X, v)
	}
	if o := objOf(info, t); o != nil {
		var def ast.Expr
		n := 0
		ast.Inspect(body, func(nd ast.Node) bool {
			if as, ok := nd.(*ast.AssignStmt); ok {
				for i, l := range as.Lhs {
					if objOf(info, l) == o && i < len(as.Rhs) {
						n++
						def = as.Rhs[i]
					}
				}
			}
			return true
		})
		if n == 1 && def != nil {
			return typeOfValue(info, body, def, v)
		}
	}
	return false
}

// isNewOf: v is a local assigned from reflect.New(T) with T the same expression as typ.
func isNewOf(info *types.Info, body ast.Node, v ast.Expr, typ ast.Expr) bool {
	o := objOf(info, v)
	if o == nil {
		return false
	}
	ok := false
	ast.Inspect(body, func(nd ast.Node) bool {
		if as, isAs := nd.(*ast.AssignStmt); isAs {
			for i, l := range as.Lhs {
				if objOf(info, l) == o && i < len(as.Rhs) {
					if c, isC := unparen(as.Rhs[i]).(*ast.CallExpr); isC && funcIs(calleeOf(info, c), "reflect", "New") && sameObjExpr(info, c.Args[0], typ) {
						ok = true
					}
				}
			}
		}
		return true
	})
	return ok
}

// zeroOfType: v (or the local it names, assigned once) is the zero value of
// type expression T; returns T.
func zeroOfType(info *types.Info, body ast.Node, v ast.Expr) ast.Expr {
	v = unparen(v)
	if o := objOf(info, v); o != nil {
		var def ast.Expr
		n := 0
		ast.Inspect(body, func(nd ast.Node) bool {
			if as, ok := nd.(*ast.AssignStmt); ok {
				for i, l := range as.Lhs {
					if objOf(info, l) == o && i < len(as.Rhs) {
						n++
						def = as.Rhs[i]
					}
				}
			}
			return true
		})
		if n == 1 && def != nil {
			return zeroOfType(info, body, def)
		}
		return nil
	}
	c, ok := v.(*ast.CallExpr)
	if !ok {
		return nil
	}
	cal := calleeOf(info, c)
	switch {
	case funcIs(cal, "reflect", "Zero") && len(c.Args) == 1:
		return c.Args[0]
	case funcIs(cal, "reflect", "Indirect") && len(c.Args) == 1:
		if nc, ok := unparen(c.Args[0]).(*ast.CallExpr); ok && funcIs(calleeOf(info, nc), "reflect", "New") {
			return nc.Args[0]
		}
	case methodIs(cal, "reflect", "Value", "Elem"):
		if nc, ok := unparen(unparen(c.Fun).(*ast.SelectorExpr).X).(*ast.CallExpr); ok && funcIs(calleeOf(info, nc), "reflect", "New") {
			return nc.Args[0]
		}
	}
	return nil
}

// c12NilSite: when the appended value is a local assigned in an if/else on
// `v != nil`, the nil arm must build the zero value of the expected type.
func c12NilSite(r *Run, f *FuncInfo, as *ast.AssignStmt, v ast.Expr, expected ast.Expr) {
	w := r.W
	info := f.Pkg.TypesInfo
	o := objOf(info, v)
	if o == nil || expected == nil {
		return
	}
	list := parentBlock(f, as)
	for _, st := range list {
		if st == ast.Stmt(as) {
			break
		}
		ifs, ok := st.(*ast.IfStmt)
		if !ok || ifs.Else == nil {
			continue
		}
		be, ok := unparen(ifs.Cond).(*ast.BinaryExpr)
		if !ok || !(be.Op == token.NEQ || be.Op == token.EQL) || !isNilIdent(info, be.Y) {
			continue
		}
		nilArm := ifs.Else
		if be.Op == token.EQL {
			nilArm = ifs.Body
		}
		var rhs ast.Expr
		ast.Inspect(nilArm, func(n ast.Node) bool {
			if a2, ok := n.(*ast.AssignStmt); ok && len(a2.Lhs) == 1 && len(a2.Rhs) == 1 && objOf(info, a2.Lhs[0]) == o {
				rhs = a2.Rhs[0]
			}
			return true
		})
		if rhs == nil {
			continue
		}
		con := "nil argument -> " + short(w.Fset, rhs)
		t := zeroOfType(info, nilArm, rhs)
		switch {
		case t == nil:
			r.Bad("R4", f.Name(), con, w.Pos(rhs.Pos()), "a nil argument must become the zero VALUE of the expected type: reflect.New(T).Elem() or reflect.Zero(T) (reflect.New(T) alone is a pointer to T)")
		case !sameObjExpr(info, t, expected):
			r.Bad("R4", f.Name(), con, w.Pos(rhs.Pos()), "the zero value is built from '"+short(w.Fset, t)+"' but the parameter type checked at this site is '"+short(w.Fset, expected)+"'")
		default:
			r.Ok("R4", f.Name(), con, w.Pos(rhs.Pos()), "zero value of the type the assignability test uses")
		}
	}
}

func c12Arity(r *Run, f *FuncInfo) {
	w := r.W
	info := f.Pkg.TypesInfo
	_, isLenArgs := c12ArgAliases(info, f)
	vec := c12ArgVector(info, f)
	// the reflect Call
	var call *ast.CallExpr
	for _, c := range callsIn(f.Decl.Body, true) {
		if methodIs(calleeOf(info, c), "reflect", "Value", "Call") {
			call = c
		}
	}
	if call == nil {
		r.Lost("R3", "reflect.Value.Call in the call evaluator")
		return
	}
	// numIn: local assigned from X.NumIn()
	var numIn types.Object
	inspectBody(f.Decl.Body, true, func(n ast.Node) bool {
		if as, ok := n.(*ast.AssignStmt); ok && len(as.Lhs) == 1 && len(as.Rhs) == 1 {
			if c, ok := unparen(as.Rhs[0]).(*ast.CallExpr); ok && isTypeMethod(info, c, "NumIn") {
				numIn = objOf(info, as.Lhs[0])
			}
		}
		return true
	})
	isNumIn := func(e ast.Expr) bool {
		if o := objOf(info, e); o != nil && o == numIn {
			return true
		}
		c, ok := unparen(e).(*ast.CallExpr)
		return ok && isTypeMethod(info, c, "NumIn")
	}
	const (
		gKind  = 1 << iota // Kind() != Func -> return
		gNil               // IsNil() -> return
		gArity             // too many (fixed) or too few (variadic)
		gPostGT
		gPostLT
		gVariadic // on the variadic side of the branch
	)
	returnsErr := func(ifs *ast.IfStmt) bool {
		return len(ifs.Body.List) > 0 && isReturnNilErr(info, ifs.Body.List[len(ifs.Body.List)-1])
	}
	classify := func(n ast.Node) int {
		// go/cfg puts the condition expression of an if into the block; find its IfStmt
		e, ok := n.(ast.Expr)
		if !ok {
			return 0
		}
		ifs, ok := w.Parent(e).(*ast.IfStmt)
		if !ok || ifs.Cond != e || !returnsErr(ifs) {
			return 0
		}
		switch x := unparen(e).(type) {
		case *ast.BinaryExpr:
			// rt.Kind() != reflect.Func
			if c, ok := unparen(x.X).(*ast.CallExpr); ok && isTypeMethod(info, c, "Kind") && x.Op == token.NEQ {
				if v, ok := constInt(info, x.Y); ok && v == 19 {
					return gKind
				}
			}
			// len(node.Arguments) > NumIn
			if x.Op == token.GTR && isLenArgs(x.X) && isNumIn(x.Y) {
				return gArity
			}
			// nodeArgsLen < NumIn-1
			if x.Op == token.LSS && isLenArgs(x.X) {
				if sub, ok := unparen(x.Y).(*ast.BinaryExpr); ok && sub.Op == token.SUB && isNumIn(sub.X) {
					if v, ok := constInt(info, sub.Y); ok && v == 1 {
						return gArity | gVariadic
					}
				}
			}
			// len(args) > NumIn / len(args) < NumIn
			if c, ok := unparen(x.X).(*ast.CallExpr); ok && builtinName(info, c) == "len" && vec != nil && objOf(info, c.Args[0]) == vec && isNumIn(x.Y) {
				if x.Op == token.GTR {
					return gPostGT
				}
				if x.Op == token.LSS {
					return gPostLT
				}
			}
		case *ast.CallExpr:
			if methodIs(calleeOf(info, x), "reflect", "Value", "IsNil") {
				return gNil
			}
		}
		return 0
	}
	g := cfgOf(info, f.Decl.Body)
	tr := func(n ast.Node, st int) int { return st | classify(n) }
	var statesAtCall []int
	forwardStates(g, 0, tr, func(n ast.Node, st int) {
		found := false
		ast.Inspect(n, func(m ast.Node) bool {
			if _, isLit := m.(*ast.FuncLit); isLit {
				return false
			}
			if m == ast.Node(call) {
				found = true
			}
			return true
		})
		if found {
			statesAtCall = append(statesAtCall, st)
		}
	})
	if len(statesAtCall) == 0 {
		r.Lost("R3", "paths to reflect.Value.Call")
		return
	}
	missing := map[string]bool{}
	for _, st := range statesAtCall {
		if st&gKind == 0 {
			missing["Kind() == Func test"] = true
		}
		if st&gNil == 0 {
			missing["nil-func test"] = true
		}
		if st&gArity == 0 {
			missing["arity test (too many arguments for a fixed signature / too few for a variadic one)"] = true
		}
		if st&gVariadic == 0 && st&gArity != 0 && (st&gPostGT == 0 || st&gPostLT == 0) {
			missing["post-fill tests len(args) > NumIn and len(args) < NumIn on the fixed-arity path"] = true
		}
	}
	if len(missing) == 0 {
		r.Ok("R3", f.Name(), "every path to Call passes Kind()==Func, the nil-func test and the arity tests", w.Pos(call.Pos()), fmt.Sprintf("%d path state(s) at the call", len(statesAtCall)))
	} else {
		var ms []string
		for m := range missing {
			ms = append(ms, m)
		}
		for _, m := range sortedStrings(ms) {
			r.Bad("R3", f.Name(), "path to Call without "+m, w.Pos(call.Pos()), "some path reaches reflect.Value.Call without this test: the helper is invoked with a wrong number of arguments (panic) or the surplus arguments are silently ignored")
		}
	}
	// the fixed arity test sits on the non-variadic side: the if that contains it is `if !isVariadic`
	inspectBody(f.Decl.Body, true, func(n ast.Node) bool {
		ifs, ok := n.(*ast.IfStmt)
		if !ok {
			return true
		}
		if classify(ifs.Cond) != gArity {
			return true
		}
		okSide := false
		var child ast.Node = ifs
		for p := w.Parent(ifs); p != nil; child, p = p, w.Parent(p) {
			if outer, ok := p.(*ast.IfStmt); ok && child == ast.Node(outer.Body) {
				if u, ok := unparen(outer.Cond).(*ast.UnaryExpr); ok && u.Op == token.NOT {
					if o := objOf(info, u.X); o != nil && isVariadicFlag(info, f, o) {
						okSide = true
					}
				}
			}
		}
		if okSide {
			r.Ok("R3", f.Name(), "too-many test on the whole non-variadic side", w.Pos(ifs.Pos()), "first statement under 'if !isVariadic'")
		} else {
			r.Bad("R3", f.Name(), "too-many test not on the whole non-variadic side", w.Pos(ifs.Pos()), "every non-variadic call must pass the too-many-arguments test")
		}
		return true
	})
}

func isVariadicFlag(info *types.Info, f *FuncInfo, o types.Object) bool {
	ok := false
	inspectBody(f.Decl.Body, true, func(n ast.Node) bool {
		if as, isAs := n.(*ast.AssignStmt); isAs && len(as.Lhs) == 1 && len(as.Rhs) == 1 && objOf(info, as.Lhs[0]) == o {
			if c, isC := unparen(as.Rhs[0]).(*ast.CallExpr); isC && isTypeMethod(info, c, "IsVariadic") {
				ok = true
			}
		}
		return true
	})
	return ok
}

func sortedStrings(xs []string) []string {
	out := append([]string(nil), xs...)
	for i := range out {
		for j := i + 1; j < len(out); j++ {
			if out[j] < out[i] {
				out[i], out[j] = out[j], out[i]
			}
		}
	}
	return out
}

func c12AutoSupply(r *Run, f *FuncInfo) {
	w := r.W
	info := f.Pkg.TypesInfo
	node := f.Obj.Type().(*types.Signature).Params().At(0)
	ctxF := w.compilerField("ctx")
	recv := f.Obj.Type().(*types.Signature).Recv()
	vec := c12ArgVector(info, f)
	// the helper-context literal
	n := 0
	ast.Inspect(f.Decl.Body, func(nd ast.Node) bool {
		cl, ok := nd.(*ast.CompositeLit)
		if !ok || !namedIs(info.Types[cl].Type, modPath, "HelperContext") {
			return true
		}
		if pc, isCall := w.Parent(cl).(*ast.CallExpr); isCall && funcIs(calleeOf(info, pc), "reflect", "TypeOf") {
			return true // a type witness, not a value handed to a helper
		}
		n++
		var okCtx, okComp, okBlock bool
		for _, e := range cl.Elts {
			kv, ok := e.(*ast.KeyValueExpr)
			if !ok {
				continue
			}
			k, _ := kv.Key.(*ast.Ident)
			if k == nil {
				continue
			}
			fld, _ := info.Uses[k].(*types.Var)
			if fld == nil {
				continue
			}
			switch {
			case fld.Embedded():
				if _, vf := fieldOf(info, kv.Value); vf == ctxF {
					okCtx = true
				}
			case namedIs(fld.Type(), astPath, "BlockStatement"):
				if bx, vf := fieldOf(info, kv.Value); vf != nil && vf.Name() == "Block" && objOf(info, bx) == node {
					okBlock = true
				}
			default:
				if objOf(info, kv.Value) == recv {
					okComp = true
				}
			}
		}
		if okCtx && okComp && okBlock {
			r.Ok("R5", f.Name(), "helper context {current scope, evaluator, node.Block}", w.Pos(cl.Pos()), "the block of the call reaches the helper")
		} else {
			r.Bad("R5", f.Name(), "helper context literal "+short(w.Fset, cl), w.Pos(cl.Pos()), "the automatic helper context must carry the evaluator's current scope, the evaluator and the call's block")
		}
		return true
	})
	if n == 0 {
		r.Bad("R5", f.Name(), "no helper context is built", w.Pos(f.Decl.Pos()), "a trailing helper-context parameter is not supplied")
	}
	// auto supply only when len(args) < NumIn: the calls of the supplying closure sit under that test
	okUnder := false
	nCalls := 0
	inspectBody(f.Decl.Body, true, func(nd ast.Node) bool {
		c, ok := nd.(*ast.CallExpr)
		if !ok {
			return true
		}
		id, ok := unparen(c.Fun).(*ast.Ident)
		if !ok {
			return true
		}
		v, ok := info.Uses[id].(*types.Var)
		if !ok {
			return true
		}
		if _, isSig := v.Type().Underlying().(*types.Signature); !isSig || v.IsField() {
			return true
		}
		// a local closure that appends to the argument vector
		nCalls++
		under := false
		for p := w.Parent(c); p != nil; p = w.Parent(p) {
			if ifs, ok := p.(*ast.IfStmt); ok {
				if be, ok := unparen(ifs.Cond).(*ast.BinaryExpr); ok && be.Op == token.LSS {
					if lc, ok := unparen(be.X).(*ast.CallExpr); ok && builtinName(info, lc) == "len" && vec != nil && objOf(info, lc.Args[0]) == vec {
						under = true
					}
				}
			}
		}
		if under {
			okUnder = true
		} else {
			r.Bad("R5", f.Name(), "auto supply outside 'len(args) < NumIn' "+short(w.Fset, c), w.Pos(c.Pos()), "trailing parameters may be supplied automatically only when the template omitted them")
		}
		return true
	})
	if okUnder {
		r.Ok("R5", f.Name(), fmt.Sprintf("%d auto-supply call(s) under 'len(args) < NumIn'", nCalls), w.Pos(f.Decl.Pos()), "only when arguments are missing")
	}
	// the options map is a fresh empty map literal
	okMap := false
	ast.Inspect(f.Decl.Body, func(nd ast.Node) bool {
		c, ok := nd.(*ast.CallExpr)
		if !ok || !funcIs(calleeOf(info, c), "reflect", "ValueOf") || len(c.Args) != 1 {
			return true
		}
		if cl, ok := unparen(c.Args[0]).(*ast.CompositeLit); ok && len(cl.Elts) == 0 && isMapStringIface(info.Types[cl].Type) {
			if as, ok := w.Parent(w.Parent(c)).(*ast.AssignStmt); ok && vec != nil && objOf(info, as.Lhs[0]) == vec {
				okMap = true
			}
		}
		return true
	})
	if okMap {
		r.Ok("R5", f.Name(), "options map is a fresh empty map", w.Pos(f.Decl.Pos()), "reflect.ValueOf(map[string]interface{}{})")
	} else {
		r.Bad("R5", f.Name(), "options map", w.Pos(f.Decl.Pos()), "an omitted trailing options map must be supplied as a fresh, empty, non-nil map")
	}
}

func c12Results(r *Run, f *FuncInfo) {
	w := r.W
	info := f.Pkg.TypesInfo
	// res := rv.Call(args); uses of res[0] under `if len(res) > 0`
	var res types.Object
	inspectBody(f.Decl.Body, true, func(n ast.Node) bool {
		if as, ok := n.(*ast.AssignStmt); ok && len(as.Lhs) == 1 && len(as.Rhs) == 1 {
			if c, ok := unparen(as.Rhs[0]).(*ast.CallExpr); ok && methodIs(calleeOf(info, c), "reflect", "Value", "Call") {
				res = objOf(info, as.Lhs[0])
			}
		}
		return true
	})
	if res == nil {
		r.Lost("R6", "result of reflect.Value.Call")
		return
	}
	nUse, okAll := 0, true
	ast.Inspect(f.Decl.Body, func(n ast.Node) bool {
		ix, ok := n.(*ast.IndexExpr)
		if !ok || objOf(info, ix.X) != res {
			return true
		}
		nUse++
		guard := false
		var child ast.Node = ix
		for p := w.Parent(ix); p != nil; child, p = p, w.Parent(p) {
			if ifs, ok := p.(*ast.IfStmt); ok && (child == ast.Node(ifs.Body) || child == ast.Node(ifs.Init) || child == ast.Node(ifs.Cond)) {
				for q := ast.Node(ifs); q != nil; q = w.Parent(q) {
					if outer, ok := q.(*ast.IfStmt); ok {
						if be, ok := unparen(outer.Cond).(*ast.BinaryExpr); ok && be.Op == token.GTR {
							if lc, ok := unparen(be.X).(*ast.CallExpr); ok && builtinName(info, lc) == "len" && objOf(info, lc.Args[0]) == res {
								guard = true
							}
						}
					}
				}
			}
		}
		if !guard {
			okAll = false
		}
		return true
	})
	// the value returned is res[0].Interface()
	okVal := false
	for _, ret := range returnsIn(f.Decl.Body) {
		if len(ret.Results) != 2 || !isNilIdent(info, ret.Results[1]) {
			continue
		}
		if c, ok := unparen(ret.Results[0]).(*ast.CallExpr); ok && methodIs(calleeOf(info, c), "reflect", "Value", "Interface") {
			if ix, ok := unparen(unparen(c.Fun).(*ast.SelectorExpr).X).(*ast.IndexExpr); ok && objOf(info, ix.X) == res {
				if v, ok := constInt(info, ix.Index); ok && v == 0 {
					okVal = true
				}
			}
		}
	}
	if okAll && okVal && nUse > 0 {
		r.Ok("R6", f.Name(), "value = res[0].Interface() under len(res) > 0", w.Pos(f.Decl.Pos()), fmt.Sprintf("%d indexed use(s) of the results, all guarded", nUse))
	} else {
		r.Bad("R6", f.Name(), "use of the results", w.Pos(f.Decl.Pos()), "the call's value must be the FIRST result, and the results may be indexed only when there are any")
	}
	_ = strings.TrimSpace
}
