package main

// c11tail.go (C11.R12): the tail of a path is parsed as a whole expression. What follows `].` or `).` is handed to
// the wiring function as the result of the Pratt entry at the fallback level - the level the statement parsers
// pass. At any higher level the tail stops in front of the tokens that bind less tightly: at the call level
// `people[0].Label()` ends before `(`, and the method is never called on the element.

import (
	"go/constant"
	"go/types"

	"golang.org/x/tools/go/ssa"
)

func pathTailLevelRule(r *Run, rule string) {
	w := r.W
	pm := w.parserModel()
	if len(pm.problems) > 0 || pm.pratt == nil {
		r.Lost(rule, "parser model")
		return
	}
	var wiring *FuncInfo
	for _, g := range pm.methods {
		sig := g.Obj.Type().(*types.Signature)
		if sig.Params().Len() == 2 && sig.Results().Len() == 1 && namedIs(sig.Params().At(1).Type(), astPath, "Identifier") {
			wiring = g
		}
	}
	if wiring == nil {
		r.Lost(rule, "callee-wiring function of the parser")
		return
	}
	w.SSA()
	wfn, pratt := w.SSAFunc(wiring), w.SSAFunc(pm.pratt)
	if wfn == nil || pratt == nil {
		r.Lost(rule, "wiring function / Pratt entry (SSA)")
		return
	}
	levelOf := func(c *ssa.Call) (int64, bool) {
		if len(c.Call.Args) < 2 {
			return 0, false
		}
		k, ok := c.Call.Args[len(c.Call.Args)-1].(*ssa.Const)
		if !ok || k.Value == nil || k.Value.Kind() != constant.Int {
			return 0, false
		}
		n, exact := constant.Int64Val(k.Value)
		return n, exact
	}
	// the fallback level: the lowest constant any call of the Pratt entry passes
	base, have := int64(0), false
	for _, s := range w.staticCallSites(pratt) {
		if c, ok := s.(*ssa.Call); ok {
			if n, ok := levelOf(c); ok && (!have || n < base) {
				base, have = n, true
			}
		}
	}
	if !have {
		r.Lost(rule, "a call of the Pratt entry with a constant level")
		return
	}
	nSites := 0
	for _, s := range w.staticCallSites(wfn) {
		c, ok := s.(*ssa.Call)
		if !ok || len(c.Call.Args) < 2 {
			continue
		}
		nSites++
		v := c.Call.Args[1]
		for i := 0; i < 3; i++ {
			switch y := v.(type) {
			case *ssa.MakeInterface:
				v = y.X
				continue
			case *ssa.ChangeInterface:
				v = y.X
				continue
			}
			break
		}
		v = crossNorm(v)
		name := ssaName(c.Parent())
		con := "tail handed to " + wfn.Name()
		pc, isCall := v.(*ssa.Call)
		if !isCall || pc.Call.StaticCallee() != pratt {
			r.Bad(rule, name, con, w.Pos(c.Pos()), "the expression wired behind the dot is not the result of the expression parser")
			continue
		}
		if n, ok := levelOf(pc); ok && n == base {
			r.Ok(rule, name, con, w.Pos(c.Pos()), "parsed by the Pratt entry at the fallback level")
		} else {
			r.Bad(rule, name, con, w.Pos(pc.Pos()),
				"the tail of the path is parsed at a level above the fallback level: it ends in front of the tokens that bind less tightly (at the call level `xs[0].Label()` stops before `(`, the method is looked up as a field and never called on the element)")
		}
	}
	if nSites == 0 {
		r.Lost(rule, "call sites of the callee-wiring function")
	}
}
