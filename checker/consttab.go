package main

// consttab.go: package-level lookup tables. A package variable of map type
// that is filled once by its initialiser with constant keys and is only ever
// read afterwards (looked up, ranged over, measured) is a constant table; the
// path walker then resolves a lookup with a known key to the entry the
// initialiser stored (or to "absent"). This keeps the rules independent of
// whether a dispatch is written as a switch or as a table.

import (
	"fmt"
	"go/constant"
	"go/token"
	"go/types"
	"strings"
	"sync"

	"golang.org/x/tools/go/ssa"
)

type constTable struct {
	global  *ssa.Global
	keys    []constant.Value
	vals    []ssa.Value
	stores  map[string]ssa.Value // field stores of the composite literals the values were built from
	valType types.Type
	isArray bool
	isSlice bool  // a slice variable whose backing array only the initialiser writes (indexed like an array table)
	length  int64 // of a slice table
}

func (t *constTable) lookup(k constant.Value) (ssa.Value, bool) {
	for i, tk := range t.keys {
		if tk.Kind() == k.Kind() && constant.Compare(tk, token.EQL, k) {
			return t.vals[i], true
		}
	}
	return nil, false
}

var constTabCache sync.Map // *ssa.Package -> map[*ssa.Global]*constTable

func constTablesOf(pkg *ssa.Package) map[*ssa.Global]*constTable {
	if pkg == nil {
		return nil
	}
	if v, ok := constTabCache.Load(pkg); ok {
		return v.(map[*ssa.Global]*constTable)
	}
	out := buildConstTables(pkg)
	constTabCache.Store(pkg, out)
	return out
}

// functionsOf: every function with a body declared in pkg (functions, methods, literals, init).
func functionsOf(pkg *ssa.Package) []*ssa.Function {
	var out []*ssa.Function
	seen := map[*ssa.Function]bool{}
	var add func(f *ssa.Function)
	add = func(f *ssa.Function) {
		if f == nil || seen[f] {
			return
		}
		seen[f] = true
		out = append(out, f)
		for _, a := range f.AnonFuncs {
			add(a)
		}
	}
	for _, m := range pkg.Members {
		switch x := m.(type) {
		case *ssa.Function:
			add(x)
		case *ssa.Type:
			for _, t := range []types.Type{x.Type(), types.NewPointer(x.Type())} {
				ms := pkg.Prog.MethodSets.MethodSet(t)
				for i := 0; i < ms.Len(); i++ {
					if f := pkg.Prog.MethodValue(ms.At(i)); f != nil && f.Pkg == pkg {
						add(f)
					}
				}
			}
		}
	}
	return out
}

func buildConstTables(pkg *ssa.Package) map[*ssa.Global]*constTable {
	out := map[*ssa.Global]*constTable{}
	initFn := pkg.Func("init")
	if initFn == nil || len(initFn.Blocks) == 0 {
		return out
	}
	// candidates: map-typed globals
	cands := map[*ssa.Global]bool{}
	for _, m := range pkg.Members {
		if g, ok := m.(*ssa.Global); ok {
			if pt, ok := g.Type().(*types.Pointer); ok {
				switch pt.Elem().Underlying().(type) {
				case *types.Map, *types.Array, *types.Slice:
					cands[g] = true
				}
			}
		}
	}
	if len(cands) == 0 {
		return out
	}
	// read-only everywhere but in the initialiser
	scan := []*ssa.Package{pkg}
	anyExported := false
	for g := range cands {
		if g.Object() != nil && g.Object().Exported() {
			anyExported = true
		}
	}
	if anyExported {
		for _, p := range pkg.Prog.AllPackages() {
			if p != pkg && p.Pkg != nil && strings.HasPrefix(p.Pkg.Path(), modPath) {
				scan = append(scan, p)
			}
		}
	}
	nInitStores := map[*ssa.Global]int{}
	for _, p := range scan {
		for _, f := range functionsOf(p) {
			for _, b := range f.Blocks {
				for _, ins := range b.Instrs {
					var buf [8]*ssa.Value
					for _, op := range ins.Operands(buf[:0]) {
						if op == nil || *op == nil {
							continue
						}
						g, ok := (*op).(*ssa.Global)
						if !ok || !cands[g] {
							continue
						}
						switch x := ins.(type) {
						case *ssa.UnOp:
							if x.Op != token.MUL {
								delete(cands, g)
								continue
							}
							for _, ref := range *x.Referrers() {
								switch r := ref.(type) {
								case *ssa.Lookup:
									if r.X != ssa.Value(x) {
										delete(cands, g)
									}
								case *ssa.Range, *ssa.DebugRef:
								case *ssa.Call:
									if bi, ok := r.Call.Value.(*ssa.Builtin); ok && bi.Name() == "len" {
										continue
									}
									// the standard library's searches only read the table
									if pkgN, nameN := staticCalleeName(r); stdReadOnly(pkgN, nameN) && r.Call.Value != ssa.Value(x) {
										continue
									}
									delete(cands, g)
								case *ssa.Index:
									// an element of the loaded array value: a read
									if r.X != ssa.Value(x) {
										delete(cands, g)
									}
								case *ssa.Store:
									// the whole table copied into a local that is only read (the copy a range over an array walks)
									cell, isCell := r.Addr.(*ssa.Alloc)
									if r.Val != ssa.Value(x) || !isCell {
										delete(cands, g)
										continue
									}
									for _, cref := range *cell.Referrers() {
										switch cr := cref.(type) {
										case *ssa.Store:
											if cr != r {
												delete(cands, g)
											}
										case *ssa.IndexAddr:
											for _, ref2 := range *cr.Referrers() {
												if ld2, isLd2 := ref2.(*ssa.UnOp); !isLd2 || ld2.Op != token.MUL {
													if _, isDbg := ref2.(*ssa.DebugRef); !isDbg {
														delete(cands, g)
													}
												}
											}
										case *ssa.DebugRef:
										default:
											delete(cands, g)
										}
									}
								case *ssa.IndexAddr:
									// an element of a slice table: only ever loaded
									if r.X != ssa.Value(x) {
										delete(cands, g)
										continue
									}
									for _, ref2 := range *r.Referrers() {
										switch r2 := ref2.(type) {
										case *ssa.UnOp:
											if r2.Op != token.MUL {
												delete(cands, g)
											}
										case *ssa.DebugRef:
										default:
											delete(cands, g)
										}
									}
								default:
									delete(cands, g)
								}
							}
						case *ssa.Store:
							if f == initFn && x.Addr == ssa.Value(g) {
								nInitStores[g]++
							} else {
								delete(cands, g)
							}
						case *ssa.IndexAddr:
							// an element of an array table: stored to by the initialiser only, loaded elsewhere
							if x.X != ssa.Value(g) {
								delete(cands, g)
								continue
							}
							for _, ref := range *x.Referrers() {
								switch r := ref.(type) {
								case *ssa.UnOp:
									if r.Op != token.MUL {
										delete(cands, g)
									}
								case *ssa.Store:
									if f != initFn || r.Addr != ssa.Value(x) {
										delete(cands, g)
									}
								case *ssa.FieldAddr:
									// a field of a struct element: stored to by the initialiser only, loaded elsewhere
									for _, ref2 := range *r.Referrers() {
										switch r2 := ref2.(type) {
										case *ssa.UnOp:
											if r2.Op != token.MUL {
												delete(cands, g)
											}
										case *ssa.Store:
											if f != initFn || r2.Addr != ssa.Value(r) {
												delete(cands, g)
											}
										case *ssa.DebugRef:
										default:
											delete(cands, g)
										}
									}
								case *ssa.DebugRef:
								default:
									delete(cands, g)
								}
							}
						case *ssa.DebugRef:
						default:
							delete(cands, g)
						}
					}
				}
			}
		}
	}
	if len(cands) == 0 {
		return out
	}
	// what the initialiser stores: walk it (its only branch is the "already initialised" guard)
	pw := &pathWalker{maxPaths: 64}
	pw.noTables = true
	pw.walk(initFn)
	var best *pwPath
	for _, p := range pw.paths {
		if p.end == "return" && (best == nil || len(p.events) > len(best.events)) {
			best = p
		}
	}
	if best == nil || pw.overflow {
		return out
	}
	for g := range cands {
		if at, isArr := g.Type().(*types.Pointer).Elem().Underlying().(*types.Array); isArr {
			// a table computed by a function of its own: var t = func() [N]T { ... }()
			if nInitStores[g] == 1 {
				for _, ev := range best.events {
					st, isSt := ev.(*ssa.Store)
					if !isSt || st.Addr != ssa.Value(g) {
						continue
					}
					call, isCall := st.Val.(*ssa.Call)
					if !isCall {
						continue
					}
					builder := call.Call.StaticCallee()
					if builder == nil {
						if mc, isMC := call.Call.Value.(*ssa.MakeClosure); isMC {
							builder, _ = mc.Fn.(*ssa.Function)
						}
					}
					if elems, _, elemT, okT := evalTableBuilder(builder); okT {
						t := &constTable{global: g, stores: map[string]ssa.Value{}, valType: at.Elem(), isArray: true}
						for k, v := range elems {
							t.keys = append(t.keys, constant.MakeInt64(k))
							t.vals = append(t.vals, ssa.NewConst(v, elemT))
						}
						out[g] = t
					}
				}
				continue
			}
			// element stores of the initialiser; every other index holds the zero value
			t := &constTable{global: g, stores: best.stores, valType: at.Elem(), isArray: true}
			ok := nInitStores[g] == 0
			for _, ev := range best.events {
				st, isSt := ev.(*ssa.Store)
				if !isSt {
					continue
				}
				ia, isIA := st.Addr.(*ssa.IndexAddr)
				if !isIA || ia.X != ssa.Value(g) {
					continue
				}
				k, isC := best.constOf(ia.Index)
				if !isC {
					ok = false
					break
				}
				t.keys = append(t.keys, k)
				t.vals = append(t.vals, best.resolve(st.Val))
			}
			if ok {
				out[g] = t
			}
			continue
		}
		if nInitStores[g] != 1 {
			continue
		}
		var mk ssa.Value
		for _, ev := range best.events {
			if st, ok := ev.(*ssa.Store); ok && st.Addr == ssa.Value(g) {
				mk = best.resolve(st.Val)
			}
		}
		if st, isSliceT := g.Type().(*types.Pointer).Elem().Underlying().(*types.Slice); isSliceT {
			// var t = []T{c0, c1, ...}: the whole of a fresh array, whose elements the literal stores
			sl, isSl := mk.(*ssa.Slice)
			if !isSl || sl.Low != nil || sl.High != nil || sl.Max != nil {
				continue
			}
			al, isAl := sl.X.(*ssa.Alloc)
			if !isAl {
				continue
			}
			at, isArr := al.Type().(*types.Pointer).Elem().Underlying().(*types.Array)
			if !isArr {
				continue
			}
			// the array is reachable through the variable only
			private := true
			for _, ref := range *al.Referrers() {
				switch r := ref.(type) {
				case *ssa.IndexAddr:
					for _, ref2 := range *r.Referrers() {
						if st2, isSt := ref2.(*ssa.Store); !isSt || st2.Addr != ssa.Value(r) {
							if _, isDbg := ref2.(*ssa.DebugRef); !isDbg {
								private = false
							}
						}
					}
				case *ssa.Slice:
					if r != sl {
						private = false
					}
				case *ssa.DebugRef:
				default:
					private = false
				}
			}
			if !private {
				continue
			}
			t := &constTable{global: g, stores: best.stores, valType: st.Elem(), isArray: true, isSlice: true, length: at.Len()}
			ok := true
			for _, ev := range best.events {
				est, isSt := ev.(*ssa.Store)
				if !isSt {
					continue
				}
				ia, isIA := est.Addr.(*ssa.IndexAddr)
				if !isIA || ia.X != ssa.Value(al) {
					continue
				}
				k, isC := best.constOf(ia.Index)
				if !isC {
					ok = false
					break
				}
				t.keys = append(t.keys, k)
				t.vals = append(t.vals, best.resolve(est.Val))
			}
			if ok {
				out[g] = t
			}
			continue
		}
		tabPath := best
		if _, ok := mk.(*ssa.MakeMap); !ok {
			// a table built by a function of its own: var ops = buildOps() / numericOperators[int]() -- a function
			// without parameters (or called with constants) whose only path makes a map, fills it and returns it
			call, isCall := mk.(*ssa.Call)
			if !isCall || len(call.Call.Args) != 0 {
				continue
			}
			builder := call.Call.StaticCallee()
			if builder == nil || len(builder.Blocks) == 0 || funcHasLoop(builder) || builder.Signature.Results().Len() != 1 {
				continue
			}
			bw := &pathWalker{maxPaths: 8}
			bw.noTables = true
			bw.walk(builder)
			if bw.overflow || len(bw.paths) != 1 || bw.paths[0].end != "return" || len(bw.paths[0].results) != 1 {
				continue
			}
			tabPath = bw.paths[0]
			mk = tabPath.resolve(tabPath.results[0])
			if _, ok := mk.(*ssa.MakeMap); !ok {
				continue
			}
		}
		t := &constTable{global: g, stores: tabPath.stores, valType: g.Type().(*types.Pointer).Elem().Underlying().(*types.Map).Elem()}
		ok := true
		best := tabPath
		for _, ev := range best.events {
			mu, isMU := ev.(*ssa.MapUpdate)
			if !isMU || best.resolve(mu.Map) != mk {
				continue
			}
			k, isC := best.constOf(mu.Key)
			if !isC {
				ok = false
				break
			}
			t.keys = append(t.keys, k)
			t.vals = append(t.vals, best.resolve(mu.Value))
		}
		if ok {
			out[g] = t
		}
	}
	return out
}

// tableLookup resolves a lookup in a constant table with a known key.
// found reports whether the key is present; ok whether the lookup was resolved at all.
func (p *pwPath) tableLookup(x *ssa.Lookup) (val ssa.Value, found, ok bool) {
	ld, isLd := p.resolve(x.X).(*ssa.UnOp)
	if !isLd || ld.Op != token.MUL {
		return nil, false, false
	}
	g, isG := ld.X.(*ssa.Global)
	if !isG {
		return nil, false, false
	}
	t := constTablesOf(g.Pkg)[g]
	if t == nil {
		return nil, false, false
	}
	k, isC := p.constOf(x.Index)
	if !isC {
		return nil, false, false
	}
	for a, v := range t.stores {
		if _, have := p.stores[a]; !have {
			p.stores[a] = v
		}
	}
	v, found := t.lookup(k)
	if !found {
		return zeroConst(t.valType), false, true
	}
	return v, true, true
}

func zeroConst(t types.Type) ssa.Value {
	switch u := t.Underlying().(type) {
	case *types.Basic:
		switch {
		case u.Info()&types.IsString != 0:
			return ssa.NewConst(constant.MakeString(""), t)
		case u.Info()&types.IsBoolean != 0:
			return ssa.NewConst(constant.MakeBool(false), t)
		case u.Info()&types.IsNumeric != 0:
			return ssa.NewConst(constant.MakeInt64(0), t)
		}
	}
	return ssa.NewConst(nil, t)
}

// tableElem resolves the load of an element of a constant array table with a known index (for a table of
// structs: the load of a field of the element; the load of the whole element leaves its fields known).
func (p *pwPath) tableElem(ld *ssa.UnOp) (ssa.Value, bool) {
	ia, ok := ld.X.(*ssa.IndexAddr)
	field := -1
	if !ok {
		fa, isFA := ld.X.(*ssa.FieldAddr)
		if !isFA {
			return nil, false
		}
		if ia, ok = p.resolve(fa.X).(*ssa.IndexAddr); !ok {
			return nil, false
		}
		field = fa.Field
	}
	g, ok := ia.X.(*ssa.Global)
	var t *constTable
	if ok {
		if t = constTablesOf(g.Pkg)[g]; t != nil && t.isSlice {
			t = nil
		}
	} else {
		t = p.sliceTableOf(ia.X)
	}
	if t == nil || !t.isArray {
		return nil, false
	}
	k, ok := p.constOf(ia.Index)
	if !ok {
		return nil, false
	}
	for a, v := range t.stores {
		if _, have := p.stores[a]; !have {
			p.stores[a] = v
		}
	}
	if st, isStruct := t.valType.Underlying().(*types.Struct); isStruct {
		// the element's fields: what the initialiser stored, the zero value otherwise
		ek := p.addrKey(ia)
		if ek == "" {
			return nil, false
		}
		for i := 0; i < st.NumFields(); i++ {
			fk := fmt.Sprintf("%s.%d", ek, i)
			if _, have := p.stores[fk]; !have {
				p.stores[fk] = zeroConst(st.Field(i).Type())
			}
		}
		if field >= 0 && field < st.NumFields() {
			return p.stores[fmt.Sprintf("%s.%d", ek, field)], true
		}
		return nil, false // the whole element: a struct value whose fields are known (structField)
	}
	if field >= 0 {
		return nil, false
	}
	if v, found := t.lookup(k); found {
		return v, true
	}
	return zeroConst(t.valType), true
}

// sliceTableOf: v is the value of a slice variable that is a constant table.
func (p *pwPath) sliceTableOf(v ssa.Value) *constTable {
	ld, isLd := p.resolve(v).(*ssa.UnOp)
	if !isLd || ld.Op != token.MUL {
		return nil
	}
	g, isG := ld.X.(*ssa.Global)
	if !isG {
		return nil
	}
	t := constTablesOf(g.Pkg)[g]
	if t == nil || !t.isSlice {
		return nil
	}
	return t
}

// tableSearch: slices.Contains / slices.Index of a constant table of basic values for a known value.
func (p *pwPath) tableSearch(c *ssa.Call, d int) (constant.Value, bool) {
	pkg, name := staticCalleeName(c)
	if pkg != "slices" || (name != "Contains" && name != "Index") || len(c.Call.Args) != 2 {
		return nil, false
	}
	t := p.sliceTableOf(c.Call.Args[0])
	if t == nil {
		return nil, false
	}
	want, ok := p.constOfD(c.Call.Args[1], d+1)
	if !ok {
		return nil, false
	}
	at := int64(-1)
	for i := int64(0); i < t.length && at < 0; i++ {
		var ev constant.Value
		if v, found := t.lookup(constant.MakeInt64(i)); found {
			cv, isC := v.(*ssa.Const)
			if !isC || cv.Value == nil {
				return nil, false
			}
			ev = cv.Value
		} else if z, isC := zeroConst(t.valType).(*ssa.Const); isC && z.Value != nil {
			ev = z.Value
		} else {
			return nil, false
		}
		if ev.Kind() != want.Kind() {
			return nil, false
		}
		if constant.Compare(ev, token.EQL, want) {
			at = i
		}
	}
	if name == "Contains" {
		return constant.MakeBool(at >= 0), true
	}
	return constant.MakeInt64(at), true
}
