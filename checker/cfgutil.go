package main

import (
	"go/ast"
	"go/types"

	"golang.org/x/tools/go/cfg"
)

// cfgOf builds the control-flow graph of a function body. Calls to panic and
// os.Exit style functions are treated as non-returning.
func cfgOf(info *types.Info, body *ast.BlockStmt) *cfg.CFG {
	return cfg.New(body, func(c *ast.CallExpr) bool {
		if id, ok := unparen(c.Fun).(*ast.Ident); ok {
			if b, ok := info.Uses[id].(*types.Builtin); ok && b.Name() == "panic" {
				return false
			}
		}
		return true
	})
}

// forwardStates runs a forward may-analysis over a CFG with a small finite
// state per block entry. transfer is applied to every node of a block in
// order; states reaching a block from several predecessors are all explored
// (set of states per block). visit is called for every (node, state) pair.
func forwardStates(g *cfg.CFG, init int, transfer func(n ast.Node, st int) int, visit func(n ast.Node, st int)) map[*cfg.Block]map[int]bool {
	in := map[*cfg.Block]map[int]bool{}
	if len(g.Blocks) == 0 {
		return in
	}
	type item struct {
		b  *cfg.Block
		st int
	}
	work := []item{{g.Blocks[0], init}}
	for len(work) > 0 {
		it := work[len(work)-1]
		work = work[:len(work)-1]
		if in[it.b] == nil {
			in[it.b] = map[int]bool{}
		}
		if in[it.b][it.st] {
			continue
		}
		in[it.b][it.st] = true
		st := it.st
		for _, n := range it.b.Nodes {
			if visit != nil {
				visit(n, st)
			}
			st = transfer(n, st)
		}
		for _, s := range it.b.Succs {
			work = append(work, item{s, st})
		}
	}
	return in
}

// exitStates returns the states at the end of every block without successors
// (function exits).
func exitStates(g *cfg.CFG, in map[*cfg.Block]map[int]bool, transfer func(n ast.Node, st int) int) map[int]bool {
	out := map[int]bool{}
	for _, b := range g.Blocks {
		if len(b.Succs) != 0 || !b.Live {
			continue
		}
		for st := range in[b] {
			s := st
			for _, n := range b.Nodes {
				s = transfer(n, s)
			}
			out[s] = true
		}
	}
	return out
}

// nodeCalls returns the call expressions evaluated by a CFG node, without
// descending into function literals (and, for the head of a compound
// statement, only its own expression).
func nodeCalls(n ast.Node) []*ast.CallExpr {
	var out []*ast.CallExpr
	ast.Inspect(n, func(x ast.Node) bool {
		switch y := x.(type) {
		case *ast.FuncLit:
			return false
		case *ast.CallExpr:
			out = append(out, y)
		}
		return true
	})
	return out
}
