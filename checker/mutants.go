package main

import (
	"fmt"
	"os"
	"path/filepath"
	"runtime"
	"runtime/debug"
	"strconv"
	"strings"
	"sync"
	"syscall"
	"time"
)

// Mutant is a small source rewrite applied IN MEMORY (packages.Config.Overlay)
// to the current /repo sources. Property-breaking mutants must be reported by
// the owning property's rules (Expect is a substring of the finding key);
// Equivalent mutants are behaviour-preserving rewrites that must NOT produce
// any new finding. The self-test only measures the checker's sensitivity and
// specificity; it is never evidence that a property holds.
type Mutant struct {
	Name       string
	Prop       string
	File       string // relative to the repository root
	Old, New   string
	Expect     string
	Equivalent bool
	Edits      []Edit // additional edits (for two-site mutants)
}

type Edit struct{ File, Old, New string }

var mutants []Mutant

func addMutant(m Mutant) { mutants = append(mutants, m) }

func (m Mutant) overlay() (map[string][]byte, error) {
	ov := map[string][]byte{}
	edits := append([]Edit{{m.File, m.Old, m.New}}, m.Edits...)
	for _, e := range edits {
		p := filepath.Join(repoDir(), e.File)
		b, ok := ov[p]
		if !ok {
			var err error
			b, err = os.ReadFile(p)
			if err != nil {
				return nil, err
			}
		}
		s := string(b)
		if strings.Count(s, e.Old) != 1 {
			return nil, fmt.Errorf("mutant %s: context occurs %d times in %s (skipped)", m.Name, strings.Count(s, e.Old), e.File)
		}
		ov[p] = []byte(strings.Replace(s, e.Old, e.New, 1))
	}
	return ov, nil
}

func mutantOverlay(name string) (map[string][]byte, error) {
	for _, m := range mutants {
		if m.Name == name {
			return m.overlay()
		}
	}
	return nil, fmt.Errorf("no mutant named %q", name)
}

// selfTest applies every mutant owned by prop and reports killed/survived.
func selfTest(prop string) map[string]interface{} {
	known, _ := loadKnown()
	applied, killed, skipped, equivOK := 0, 0, 0, 0
	var survived, falseAlarms, skippedNames, details []string
	// baseline finding keys on the unmutated tree
	base := map[string]bool{}
	if w, err := Load(LoadOpts{}); err == nil {
		if r, err := runProp(w, prop, "quick"); err == nil {
			for _, f := range r.finds {
				base[f.Key()] = true
			}
		}
	}
	for _, m := range mutants {
		if m.Prop != prop {
			continue
		}
		ov, err := m.overlay()
		if err != nil {
			skipped++
			skippedNames = append(skippedNames, m.Name)
			continue
		}
		w, err := Load(LoadOpts{Overlay: ov})
		if err != nil {
			skipped++
			skippedNames = append(skippedNames, m.Name+" (does not compile: "+err.Error()+")")
			continue
		}
		r, err := runProp(w, prop, "quick")
		applied++
		var newKeys []string
		if err != nil {
			newKeys = append(newKeys, "checker-panic: "+err.Error())
		} else {
			res := r.classify(known)
			for _, f := range res.Violations {
				if !base[f.Key()] {
					newKeys = append(newKeys, f.Key())
				}
			}
		}
		if m.Equivalent {
			if len(newKeys) == 0 {
				equivOK++
			} else {
				falseAlarms = append(falseAlarms, m.Name+" -> "+strings.Join(newKeys, " ; "))
			}
			continue
		}
		hit := false
		for _, k := range newKeys {
			if m.Expect == "" || strings.Contains(k, m.Expect) {
				hit = true
			}
		}
		if hit {
			killed++
			details = append(details, m.Name+" -> "+newKeys[0])
		} else {
			survived = append(survived, m.Name+" (reported: "+strings.Join(newKeys, " ; ")+")")
		}
	}
	// the corpora of seeded changes and refactorings, replayed in memory (four at a time)
	type job struct {
		cp   corpusPatch
		skip string
		keys []string
	}
	var jobs []*job
	for _, cp := range corpusPatches() {
		if cp.Kind == "seeded" {
			mine := false
			for _, e := range cp.Expect {
				if e == prop {
					mine = true
				}
			}
			if !mine {
				continue
			}
		}
		jobs = append(jobs, &job{cp: cp})
	}
	// every variant is a whole type-checked program (about 1.5 GB while it is analysed): at most two
	// replays run at the same time on this machine, however many checks were started in parallel
	unlock := corpusSlot()
	defer unlock()
	sem := make(chan struct{}, 2)
	// the garbage of one variant is the size of a whole program: without a limit the heap doubles before it is
	// collected (27 GB were seen); a soft limit makes the collector run as soon as the live variants allow
	if os.Getenv("GOMEMLIMIT") == "" {
		debug.SetMemoryLimit(12 << 30)
	}
	var wg sync.WaitGroup
	// the replay is bounded in time (PLUSH_REPLAY_BUDGET seconds, default 600): what does not fit is recorded as
	// not replayed - the self-test measures the checker, it must not make the check of the tree run for hours
	budget := 600 * time.Second
	if v := os.Getenv("PLUSH_REPLAY_BUDGET"); v != "" {
		if n, err := strconv.Atoi(v); err == nil && n > 0 {
			budget = time.Duration(n) * time.Second
		}
	}
	deadline := time.Now().Add(budget)
	for _, j := range jobs {
		if time.Now().After(deadline) {
			j.skip = "not replayed: time budget of the self-test used up"
			continue
		}
		wg.Add(1)
		sem <- struct{}{}
		go func(j *job) {
			defer wg.Done()
			defer func() { <-sem }()
			defer runtime.GC() // each variant is a whole type-checked program with its SSA form: give it back promptly
			b, err := os.ReadFile(j.cp.Path)
			if err != nil {
				j.skip = err.Error()
				return
			}
			ov, err := applyUnifiedDiff(repoDir(), string(b))
			if err != nil {
				j.skip = err.Error()
				return
			}
			w, err := Load(LoadOpts{Overlay: ov})
			if err != nil {
				j.skip = "does not compile: " + err.Error()
				return
			}
			r, err := runProp(w, prop, "quick")
			if w.prog != nil {
				defer forgetProgram(w.prog)
			}
			if err != nil {
				j.keys = append(j.keys, "checker-panic: "+err.Error())
				return
			}
			for _, f := range r.classify(known).Violations {
				if !base[f.Key()] {
					j.keys = append(j.keys, f.Key())
				}
			}
		}(j)
	}
	wg.Wait()
	seedApplied, seedKilled, refApplied, refOK := 0, 0, 0, 0
	var corpusSkipped []string
	for _, j := range jobs {
		switch {
		case j.skip != "":
			corpusSkipped = append(corpusSkipped, j.cp.Kind+"/"+j.cp.Name+": "+j.skip)
		case j.cp.Kind == "seeded":
			seedApplied++
			if len(j.keys) > 0 {
				seedKilled++
				details = append(details, "seeded/"+j.cp.Name+" -> "+j.keys[0])
			} else {
				survived = append(survived, "seeded/"+j.cp.Name)
			}
		default:
			refApplied++
			if len(j.keys) == 0 {
				refOK++
			} else {
				falseAlarms = append(falseAlarms, "equiv/"+j.cp.Name+" -> "+strings.Join(j.keys, " ; "))
			}
		}
	}
	applied += seedApplied
	killed += seedKilled
	equivOK += refOK
	skipped += len(corpusSkipped)
	skippedNames = append(skippedNames, corpusSkipped...)
	for _, s := range survived {
		fmt.Fprintf(os.Stderr, "SELFTEST: mutant survived: %s\n", s)
	}
	for _, s := range falseAlarms {
		fmt.Fprintf(os.Stderr, "SELFTEST: equivalent rewrite raised an alarm: %s\n", s)
	}
	return map[string]interface{}{
		"mutants_applied":         applied,
		"mutants_killed":          killed,
		"mutants_survived":        survived,
		"mutants_skipped":         skipped,
		"mutants_skipped_names":   skippedNames,
		"equivalent_rewrites_ok":  equivOK,
		"equivalent_false_alarms": falseAlarms,
		"killed_detail":           details,
		"corpus_seeded_applied":   seedApplied,
		"corpus_seeded_killed":    seedKilled,
		"corpus_refactorings":     refApplied,
		"corpus_refactorings_ok":  refOK,
		"note":                    "in-memory overlays of the current /repo sources; measures checker sensitivity/specificity only",
	}
}

// corpusSlot takes one of two machine-wide slots (advisory file locks next to the corpora) and
// returns the function that gives it back. If the lock files cannot be used the replay just runs.
func corpusSlot() func() {
	dir := verifDir()
	var files []*os.File
	for _, n := range []string{".replay-slot-1", ".replay-slot-2"} {
		f, err := os.OpenFile(filepath.Join(dir, n), os.O_CREATE|os.O_RDWR, 0o644)
		if err != nil {
			continue
		}
		files = append(files, f)
	}
	closeAll := func(except *os.File) {
		for _, f := range files {
			if f != except {
				f.Close()
			}
		}
	}
	for _, f := range files {
		if syscall.Flock(int(f.Fd()), syscall.LOCK_EX|syscall.LOCK_NB) == nil {
			closeAll(f)
			return func() { syscall.Flock(int(f.Fd()), syscall.LOCK_UN); f.Close() }
		}
	}
	if len(files) > 0 {
		f := files[0]
		closeAll(f)
		if syscall.Flock(int(f.Fd()), syscall.LOCK_EX) == nil {
			return func() { syscall.Flock(int(f.Fd()), syscall.LOCK_UN); f.Close() }
		}
		f.Close()
	}
	return func() {}
}
