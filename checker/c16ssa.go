package main

// c16ssa.go: the user-function call evaluator on the SSA form: phase order on
// the paths (all arguments evaluated, then the scope installed, then the
// parameters bound), pairing on the value graph (argument i -> value slot i ->
// parameter i through the same counters).

import (
	"go/token"
	"go/types"

	"golang.org/x/tools/go/ssa"
)

func userFunctionCallRuleSSA(r *Run) {
	w := r.W
	w.SSA()
	f := w.userFunctionEval()
	m := w.coreModel()
	if f == nil || m.expr == nil {
		r.Lost("R1", "user-function call evaluator")
		return
	}
	fn := w.SSAFunc(f)
	name := f.Name()
	pos := w.Pos(f.Decl.Pos())
	var argsP, fnP ssa.Value
	for _, p := range fn.Params[1:] {
		if sl, ok := p.Type().(*types.Slice); ok && namedIs(sl.Elem(), astPath, "Expression") {
			argsP = p
		} else {
			fnP = p
		}
	}
	if argsP == nil || fnP == nil {
		r.Lost("R1", "parameters of the user-function call evaluator")
		return
	}
	ctxIdx := -1
	if ct := w.compilerType(); ct != nil {
		if cf := w.compilerField("ctx"); cf != nil {
			ctxIdx = fieldIndex(ct.Underlying().(*types.Struct), cf)
		}
	}
	isCtxLoad := func(v ssa.Value) bool {
		u, ok := v.(*ssa.UnOp)
		if !ok || u.Op != token.MUL {
			return false
		}
		fa, ok := u.X.(*ssa.FieldAddr)
		return ok && fa.Field == ctxIdx && w.isCompilerValue(fa.X)
	}
	// ---- R1: phase order on the paths
	paths, ok := walkPathsUnrolled(fn, nil, m.inline, 50000)
	if !ok {
		r.Lost("R1", "paths of the user-function call evaluator")
		return
	}
	var evalCalls, setCalls []*ssa.Call
	seenE, seenS := map[*ssa.Call]bool{}, map[*ssa.Call]bool{}
	firstSetDirect := -1
	bad := ""
	for _, p := range paths {
		lastEval, install, firstSet := -1, -1, -1
		// the scope this path installs (the value stored into the evaluator's scope field first)
		var installed ssa.Value
		for _, ev := range p.events {
			if st, ok := ev.(*ssa.Store); ok && installed == nil {
				if fa, ok := st.Addr.(*ssa.FieldAddr); ok && fa.Field == ctxIdx && w.isCompilerValue(fa.X) {
					installed = p.resolve(st.Val)
				}
			}
		}
		for i, ev := range p.events {
			switch x := ev.(type) {
			case *ssa.Call:
				if x.Call.StaticCallee() == m.expr {
					lastEval = i
					if !seenE[origCall(x)] {
						seenE[origCall(x)] = true
						evalCalls = append(evalCalls, x)
					}
				}
				// a parameter bound on the new scope itself before it is installed lands where it should
				if x.Call.IsInvoke() && x.Call.Method.Name() == "Set" && installed != nil && !isCtxLoad(x.Call.Value) && p.resolve(x.Call.Value) == installed {
					if lastEval >= 0 && firstSetDirect < 0 {
						firstSetDirect = i
					}
					if !seenS[origCall(x)] {
						seenS[origCall(x)] = true
						setCalls = append(setCalls, x)
					}
				}
				if x.Call.IsInvoke() && x.Call.Method.Name() == "Set" && isCtxLoad(x.Call.Value) {
					if firstSet < 0 {
						firstSet = i
					}
					if !seenS[origCall(x)] {
						seenS[origCall(x)] = true
						setCalls = append(setCalls, x)
					}
				}
			case *ssa.Store:
				if fa, ok := x.Addr.(*ssa.FieldAddr); ok && fa.Field == ctxIdx && w.isCompilerValue(fa.X) && install < 0 {
					if _, isDefer := interface{}(x).(*ssa.Defer); !isDefer {
						install = i
					}
				}
			}
		}
		if lastEval >= 0 && install >= 0 && lastEval > install {
			bad = "it happens after the function's own scope was installed (the argument is evaluated in the callee's scope)"
		}
		if lastEval >= 0 && firstSet >= 0 && lastEval > firstSet {
			bad = "it happens after a parameter was bound"
		}
		_ = firstSetDirect // (bindings on a scope that is not yet installed cannot be seen by a later argument evaluation)
		if firstSet >= 0 && install >= 0 && firstSet < install {
			bad = "a parameter is bound before the function's own scope is installed (it lands in the caller's scope)"
		}
		if firstSet >= 0 && install < 0 {
			bad = "on some path a parameter is bound although no scope of the function's own was installed (it lands in whatever scope is current: the caller's, or that of an earlier activation)"
		}
	}
	for _, e := range evalCalls {
		for _, s := range setCalls {
			he, hs := loopHeaderOf(e.Block()), loopHeaderOf(s.Block())
			if he != nil && he == hs {
				bad = "it shares a loop with the parameter binding: argument i+1 is evaluated after parameter i is bound and sees it instead of the caller's variable of the same name"
			}
		}
	}
	switch {
	case len(evalCalls) == 0:
		r.Bad("R1", name, "no argument evaluation", pos, "arguments are never evaluated")
	case bad != "":
		r.Bad("R1", name, "argument evaluation order", w.Pos(evalCalls[0].Pos()), "arguments must be evaluated in the caller's scope: "+bad)
	default:
		r.Ok("R1", name, "argument evaluation", w.Pos(evalCalls[0].Pos()), "on every path: all argument evaluations, then the scope is installed, then the parameters are bound; evaluation and binding do not share a loop")
	}
	// ---- R2: pairing on the value graph
	isParams := func(v ssa.Value) bool {
		x, ok := isFieldLoadOf(v, modPath, "userFunction", "Parameters")
		return ok && crossReaches(x, fnP)
	}
	// parameter bindings that live in a single-use helper of the evaluator (a bind method of the function value)
	seenFn := map[*ssa.Function]bool{fn: true}
	work := []*ssa.Function{fn}
	for i := 0; i < len(work) && i < 8; i++ {
		for _, b := range work[i].Blocks {
			for _, ins := range b.Instrs {
				c, ok := ins.(*ssa.Call)
				if !ok {
					continue
				}
				if g := c.Call.StaticCallee(); g != nil && len(g.Blocks) > 0 && !seenFn[g] && m.inline(work[i], g) {
					seenFn[g] = true
					work = append(work, g)
				}
				if work[i] != fn && c.Call.IsInvoke() && c.Call.Method.Name() == "Set" && len(c.Call.Args) == 2 && !seenS[c] {
					seenS[c] = true
					setCalls = append(setCalls, c)
				}
			}
		}
	}
	elemOf := func(v ssa.Value) (slice, idx ssa.Value, ok bool) {
		u, isU := v.(*ssa.UnOp)
		if !isU || u.Op != token.MUL {
			return nil, nil, false
		}
		ia, isIA := u.X.(*ssa.IndexAddr)
		if !isIA {
			return nil, nil, false
		}
		return ia.X, ia.Index, true
	}
	// the argument list itself, or a prefix of it (args[:n] keeps the positions)
	isArgs := func(v ssa.Value) bool {
		v = crossNormIn(v, fn) // (the parameter of a helper that evaluates a list of expressions is what it was handed)
		if v == argsP {
			return true
		}
		sl, ok := v.(*ssa.Slice)
		return ok && sl.X == argsP && sl.Low == nil
	}
	okEval, okBind := false, false
	var vals ssa.Value
	for _, e := range evalCalls {
		sl, idx, ok := elemOf(e.Call.Args[1])
		if !ok || !isArgs(sl) {
			continue
		}
		if _, isCounter := counterFromZero(idx); !isCounter {
			continue
		}
		// the value goes to vals[idx]
		for _, ref := range *e.Referrers() {
			ex, ok := ref.(*ssa.Extract)
			if !ok || ex.Index != 0 {
				continue
			}
			for _, r2 := range *ex.Referrers() {
				st, ok := r2.(*ssa.Store)
				if !ok || st.Val != ssa.Value(ex) {
					continue
				}
				if ia, ok := st.Addr.(*ssa.IndexAddr); ok && ia.Index == idx {
					vals, okEval = ia.X, true
				}
			}
		}
	}
	for _, s := range setCalls {
		if len(s.Call.Args) != 2 {
			continue
		}
		// name: params[j].Value
		nameV := s.Call.Args[0]
		u, ok := nameV.(*ssa.UnOp)
		if !ok || u.Op != token.MUL {
			continue
		}
		fa, ok := u.X.(*ssa.FieldAddr)
		if !ok {
			continue
		}
		psl, j, ok := elemOf(fa.X)
		if !ok || !isParams(psl) {
			continue
		}
		if _, isCounter := counterFromZero(j); !isCounter {
			continue
		}
		vsl, j2, ok := elemOf(stripIface(s.Call.Args[1]))
		if !ok || vals == nil || !crossReaches(vsl, vals) || j2 != j {
			continue
		}
		okBind = true
	}
	if okEval && okBind {
		r.Ok("R2", name, "parameter i <- value of argument i", pos, "argument i is evaluated into value slot i, and parameter j is bound to value slot j, with counters running from 0")
	} else {
		r.Bad("R2", name, "parameter/argument pairing", pos, "parameter i must be bound to the value of argument i: the argument list, the value list and the parameter list must be indexed by the same index")
	}
	// arity: indexing the argument list is in bounds (bounds ledger: i < len(params) <= len(args))
	lg := newLedger(w, fn)
	nIdx, okIdx := 0, true
	for _, ob := range lg.collect() {
		switch x := ob.ins.(type) {
		case *ssa.IndexAddr:
			if !isArgs(x.X) {
				continue
			}
		case *ssa.Slice:
			if x.X != argsP {
				continue
			}
		default:
			continue
		}
		nIdx++
		for _, pr := range ob.preds {
			if ok, _ := pr.prove(); !ok {
				okIdx = false
			}
		}
	}
	if nIdx > 0 && okIdx {
		r.Ok("R2", name, "arity guard before args[i]", pos, "every index into the argument list is below a length the arity test has compared with the parameter count")
	} else {
		r.Bad("R2", name, "args[i] without arity guard", pos, "a call with fewer arguments than parameters indexes past the argument list (panic) instead of reporting an error")
	}
}
