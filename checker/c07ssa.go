package main

// c07ssa.go: the falsy set of the truthiness predicate, decided by abstract
// evaluation: the paths of the predicate are enumerated (pathwalk.go) and each
// branch decision and result is evaluated over a finite set of value classes
// (nil, false, true, "", "x", empty/non-empty HTML, nil/non-nil pointer, zero
// int, zero float, empty/nil slice and map, zero struct). The form of the
// predicate (early nil test, `case nil`, negated conjunction, switch order)
// does not matter; what matters is which class reaches which result.

import (
	"fmt"
	"go/constant"
	"go/token"
	"go/types"

	"golang.org/x/tools/go/ssa"
)

type valClass struct {
	name   string
	typ    string // "", bool, string, html, other
	kind   int    // reflect.Kind number
	isNil  bool   // for nillable kinds
	nilOK  bool   // IsNil is defined for the kind
	length int
	bval   bool
	sval   string
	zero   bool
	truthy bool // what the property says
}

var c07Classes = []valClass{
	{name: "nil", kind: 0, zero: true, truthy: false},
	{name: "false", typ: "bool", kind: 1, zero: true, truthy: false},
	{name: "true", typ: "bool", kind: 1, bval: true, truthy: true},
	{name: `""`, typ: "string", kind: 24, zero: true, truthy: false},
	{name: `"x"`, typ: "string", kind: 24, sval: "x", length: 1, truthy: true},
	{name: `template.HTML("")`, typ: "html", kind: 24, zero: true, truthy: false},
	{name: `template.HTML("x")`, typ: "html", kind: 24, sval: "x", length: 1, truthy: true},
	{name: "nil pointer", typ: "other", kind: 22, isNil: true, nilOK: true, zero: true, truthy: false},
	{name: "non-nil pointer", typ: "other", kind: 22, nilOK: true, truthy: true},
	{name: "int 0", typ: "other", kind: 2, zero: true, truthy: true},
	{name: "float64 0", typ: "other", kind: 14, zero: true, truthy: true},
	{name: "empty slice", typ: "other", kind: 23, nilOK: true, truthy: true},
	{name: "nil slice", typ: "other", kind: 23, nilOK: true, isNil: true, zero: true, truthy: true},
	{name: "empty map", typ: "other", kind: 21, nilOK: true, truthy: true},
	{name: "nil map", typ: "other", kind: 21, nilOK: true, isNil: true, zero: true, truthy: true},
	{name: "zero struct", typ: "other", kind: 25, zero: true, truthy: true},
	{name: "non-empty slice", typ: "other", kind: 23, nilOK: true, length: 1, truthy: true},
}

type classEval struct {
	p     *pwPath
	param ssa.Value
	c     valClass
}

func (ce *classEval) classTypeOf(t types.Type) string {
	switch {
	case namedIs(t, "html/template", "HTML"):
		return "html"
	case isNamed(t):
		return "?"
	case isBasicKind(t, types.Bool):
		return "bool"
	case isBasicKind(t, types.String):
		return "string"
	}
	return "?"
}

// typedOf: v is the value of the parameter asserted to a type; returns that type's class name.
func (ce *classEval) typedOf(v ssa.Value) (string, bool) {
	v = ce.p.resolve(v)
	switch x := v.(type) {
	case *ssa.Extract:
		if ta, ok := x.Tuple.(*ssa.TypeAssert); ok && x.Index == 0 && ce.p.resolve(ta.X) == ce.param {
			return ce.classTypeOf(ta.AssertedType), true
		}
	case *ssa.TypeAssert:
		if !x.CommaOk && ce.p.resolve(x.X) == ce.param {
			return ce.classTypeOf(x.AssertedType), true
		}
	}
	return "", false
}

// isReflectOfParam: v is reflect.ValueOf(param).
func (ce *classEval) isReflectOfParam(v ssa.Value) bool {
	c, ok := ce.p.resolve(v).(*ssa.Call)
	if !ok {
		return false
	}
	cal := c.Call.StaticCallee()
	if cal == nil || cal.Pkg == nil || cal.Pkg.Pkg.Path() != "reflect" || cal.Name() != "ValueOf" || len(c.Call.Args) != 1 {
		return false
	}
	return ce.p.resolve(stripIface(ce.p.resolve(c.Call.Args[0]))) == ce.param || ce.p.resolve(c.Call.Args[0]) == ce.param
}

func (ce *classEval) reflectCall(v ssa.Value) (string, bool) {
	c, ok := ce.p.resolve(v).(*ssa.Call)
	if !ok || len(c.Call.Args) < 1 {
		return "", false
	}
	cal := c.Call.StaticCallee()
	if cal == nil || cal.Signature.Recv() == nil || !namedIs(cal.Signature.Recv().Type(), "reflect", "Value") {
		return "", false
	}
	if !ce.isReflectOfParam(c.Call.Args[0]) {
		return "", false
	}
	return cal.Name(), true
}

func (ce *classEval) intOf(v ssa.Value, d int) (int64, bool) {
	if d > 10 {
		return 0, false
	}
	v = ce.p.resolve(v)
	if c, ok := ce.p.constOf(v); ok && c.Kind() == constant.Int {
		n, _ := constant.Int64Val(c)
		return n, true
	}
	switch x := v.(type) {
	case *ssa.Convert:
		return ce.intOf(x.X, d+1)
	case *ssa.ChangeType:
		return ce.intOf(x.X, d+1)
	case *ssa.Call:
		if name, ok := ce.reflectCall(x); ok {
			switch name {
			case "Kind":
				return int64(ce.c.kind), true
			case "Len":
				return int64(ce.c.length), true
			}
		}
		if b, ok := x.Call.Value.(*ssa.Builtin); ok && b.Name() == "len" && len(x.Call.Args) == 1 {
			if t, ok := ce.typedOf(x.Call.Args[0]); ok && (t == "string" || t == "html") && t == ce.c.typ {
				return int64(ce.c.length), true
			}
		}
	}
	return 0, false
}

func (ce *classEval) strOf(v ssa.Value) (string, bool) {
	v = ce.p.resolve(v)
	if c, ok := ce.p.constOf(v); ok && c.Kind() == constant.String {
		return constant.StringVal(c), true
	}
	if cv, ok := v.(*ssa.Convert); ok {
		return ce.strOf(cv.X)
	}
	if t, ok := ce.typedOf(v); ok && (t == "string" || t == "html") && t == ce.c.typ {
		return ce.c.sval, true
	}
	return "", false
}

func (ce *classEval) boolOf(v ssa.Value, d int) (bool, bool) {
	if d > 12 {
		return false, false
	}
	v = ce.p.resolve(stripIface(ce.p.resolve(v)))
	if c, ok := ce.p.constOf(v); ok && c.Kind() == constant.Bool {
		return constant.BoolVal(c), true
	}
	if t, ok := ce.typedOf(v); ok && t == "bool" && ce.c.typ == "bool" {
		return ce.c.bval, true
	}
	switch x := v.(type) {
	case *ssa.UnOp:
		if x.Op == token.NOT {
			b, ok := ce.boolOf(x.X, d+1)
			return !b, ok
		}
	case *ssa.Extract:
		if ta, ok := x.Tuple.(*ssa.TypeAssert); ok && x.Index == 1 && ce.p.resolve(ta.X) == ce.param {
			t := ce.classTypeOf(ta.AssertedType)
			if t == "?" {
				return false, false
			}
			return ce.c.typ == t, true
		}
	case *ssa.Call:
		if name, ok := ce.reflectCall(x); ok {
			switch name {
			case "IsNil":
				if !ce.c.nilOK {
					return false, false // would panic: not this rule's business, but no verdict either
				}
				return ce.c.isNil, true
			case "IsZero":
				return ce.c.zero, true
			case "IsValid":
				return ce.c.kind != 0, true
			}
		}
	case *ssa.BinOp:
		switch x.Op {
		case token.EQL, token.NEQ:
			eq, ok := ce.equal(x.X, x.Y, d)
			if !ok {
				return false, false
			}
			return eq == (x.Op == token.EQL), true
		case token.LSS, token.LEQ, token.GTR, token.GEQ:
			a, ok1 := ce.intOf(x.X, d+1)
			b, ok2 := ce.intOf(x.Y, d+1)
			if ok1 && ok2 {
				return constant.Compare(constant.MakeInt64(a), x.Op, constant.MakeInt64(b)), true
			}
		case token.AND, token.LAND, token.OR, token.LOR:
			a, ok1 := ce.boolOf(x.X, d+1)
			b, ok2 := ce.boolOf(x.Y, d+1)
			if ok1 && ok2 {
				if x.Op == token.AND || x.Op == token.LAND {
					return a && b, true
				}
				return a || b, true
			}
		}
	}
	return false, false
}

func (ce *classEval) equal(a, b ssa.Value, d int) (bool, bool) {
	a, b = ce.p.resolve(a), ce.p.resolve(b)
	// param == nil
	if isNilConst(b) && (a == ce.param || stripIface(a) == ce.param) {
		return ce.c.kind == 0, true
	}
	if isNilConst(a) && (b == ce.param || stripIface(b) == ce.param) {
		return ce.c.kind == 0, true
	}
	if x, ok1 := ce.intOf(a, d+1); ok1 {
		if y, ok2 := ce.intOf(b, d+1); ok2 {
			return x == y, true
		}
	}
	if x, ok1 := ce.strOf(a); ok1 {
		if y, ok2 := ce.strOf(b); ok2 {
			return x == y, true
		}
	}
	if x, ok1 := ce.boolOf(a, d+1); ok1 {
		if y, ok2 := ce.boolOf(b, d+1); ok2 {
			return x == y, true
		}
	}
	return false, false
}

func falsySetRuleSSA(r *Run, rule string) {
	w := r.W
	f := w.truthyMethod()
	if f == nil {
		r.Lost(rule, "truthiness predicate")
		return
	}
	fn := w.SSAFunc(f)
	if fn == nil || len(fn.Params) != opBase(fn)+1 {
		r.Lost(rule, "SSA form of the truthiness predicate")
		return
	}
	paths, ok := walkPaths(fn, nil, func(caller, callee *ssa.Function) bool {
		return w.isEvalFunc(callee) && !w.coreModel().canonicalSet()[callee]
	})
	if !ok {
		r.Lost(rule, "paths of the truthiness predicate")
		return
	}
	name := f.Name()
	for _, c := range c07Classes {
		con := "truth value of " + c.name
		n := 0
		verdict, why := true, ""
		var at token.Pos = fn.Pos()
		for _, p := range paths {
			ce := &classEval{p: p, param: fn.Params[len(fn.Params)-1], c: c}
			consistent, known := true, true
			for _, d := range p.decisions {
				b, ok := ce.boolOf(d.cond, 0)
				if !ok {
					// a test this class cannot be evaluated on: if the test is about another class's typed value it is
					// unreachable for this class only when an earlier decision already excluded the path
					known = false
					break
				}
				if b != d.truth {
					consistent = false
					break
				}
			}
			if !consistent {
				continue
			}
			if !known {
				verdict, why = false, "the predicate tests something that is not a function of the value's class (type, nil-ness, emptiness): its verdict for this class cannot be read"
				if len(p.decisions) > 0 {
					at = p.decisions[len(p.decisions)-1].at.Pos()
				}
				break
			}
			n++
			if p.end != "return" || len(p.results) != 1 {
				verdict, why = false, "the predicate does not return on the path taken by this class"
				break
			}
			got, ok := ce.boolOf(p.results[0], 0)
			at = p.ret.Pos()
			if !ok {
				verdict, why = false, "unrecognised result of the truthiness predicate"
				break
			}
			if got != c.truthy {
				if c.truthy {
					why = "the predicate returns false for a value the property declares truthy (only nil, false, \"\", empty HTML and nil pointers are falsy)"
				} else {
					why = "the predicate no longer treats this value as falsy"
				}
				verdict = false
				break
			}
		}
		if verdict && n == 0 {
			verdict, why = false, "no path of the predicate is taken by this class"
		}
		if verdict {
			r.Ok(rule, name, con, w.Pos(at), fmt.Sprintf("%v on every path this class takes", c.truthy))
		} else {
			r.Bad(rule, name, con, w.Pos(at), why)
		}
	}
}
