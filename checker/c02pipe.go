package main

// c02pipe.go (C02.R7): the template text reaches the lexer as it was given. Starting from the string the
// lexer's constructor stores as its input, every hop backwards must hand the text on unchanged: the
// value is a string parameter of the function (which makes that parameter a text position in turn, judged
// at ITS call sites), a field that is only ever filled from text positions (Template.Input), or a
// conversion of bytes read from outside (RenderR). A call that computes a new string from the text - a
// normalisation of line ends, a trim, a replacement - changes what is "copied byte for byte".

import (
	"fmt"
	"go/token"
	"go/types"
	"sort"

	"golang.org/x/tools/go/ssa"
)

// c02PipeExceptions: functions that build a template of their own (one symbol each, with the reason).
var c02PipeExceptions = map[string]string{
	"plush.RunScript": "RunScript IS the construction of a template around a script: it wraps its input in one code tag",
}

func textPipelineRule(r *Run, rule string) {
	w := r.W
	w.SSA()
	m := analyseLexerArmsLight(w)
	if m == nil || m.newFn == nil || m.input == nil {
		r.Lost(rule, "lexer constructor / input field")
		return
	}
	ctor := w.SSAFunc(m.newFn)
	if ctor == nil {
		r.Lost(rule, "lexer constructor (SSA)")
		return
	}
	type pos struct {
		fn  *ssa.Function
		idx int
	}
	textParam := map[pos]bool{}
	textField := map[*types.Var]bool{}
	var work []pos
	var fieldWork []*types.Var
	nBad := 0
	bad := func(fn *ssa.Function, at token.Pos, what string) {
		nBad++
		r.Bad(rule, ssaName(fn), "template text transformed on its way to the lexer", w.Pos(at), what)
	}
	fieldOfAddr := func(fa *ssa.FieldAddr) *types.Var {
		t := fa.X.Type()
		if pt, ok := t.Underlying().(*types.Pointer); ok {
			t = pt.Elem()
		}
		st, ok := t.Underlying().(*types.Struct)
		if !ok || fa.Field >= st.NumFields() {
			return nil
		}
		return st.Field(fa.Field)
	}
	// judge: v is the text at some hop inside fn
	// root: the function at whose hop the walk began (a helper it calls to compute the text is judged as part of it)
	var judgeIn func(root, fn *ssa.Function, v ssa.Value, at token.Pos, depth int)
	judge := func(fn *ssa.Function, v ssa.Value, at token.Pos, depth int) { judgeIn(fn, fn, v, at, depth) }
	judgeIn = func(root, fn *ssa.Function, v ssa.Value, at token.Pos, depth int) {
		judge := func(fn *ssa.Function, v ssa.Value, at token.Pos, depth int) { judgeIn(root, fn, v, at, depth) }
		if depth > 8 {
			bad(fn, at, "the origin of the text cannot be followed")
			return
		}
		switch x := v.(type) {
		case *ssa.Parameter:
			for i, q := range x.Parent().Params {
				if q == x && !textParam[pos{x.Parent(), i}] {
					textParam[pos{x.Parent(), i}] = true
					work = append(work, pos{x.Parent(), i})
				}
			}
		case *ssa.Phi:
			for _, e := range x.Edges {
				judge(fn, e, at, depth+1)
			}
		case *ssa.UnOp:
			if x.Op != token.MUL {
				bad(fn, at, "the text is computed ("+x.String()+")")
				return
			}
			switch a := x.X.(type) {
			case *ssa.FieldAddr:
				if fld := fieldOfAddr(a); fld != nil {
					if !textField[fld] {
						textField[fld] = true
						fieldWork = append(fieldWork, fld)
					}
					return
				}
				bad(fn, at, "the text is read from an unknown place")
			case *ssa.Alloc:
				// a local: everything stored into it
				for _, ref := range *a.Referrers() {
					if st, ok := ref.(*ssa.Store); ok && st.Addr == ssa.Value(a) {
						judge(fn, st.Val, st.Pos(), depth+1)
					}
				}
			default:
				bad(fn, at, "the text is read from an unknown place")
			}
		case *ssa.Convert:
			// string(bytes): text that enters the module as bytes (io.ReadAll in RenderR)
			if _, isSlice := x.X.Type().Underlying().(*types.Slice); isSlice {
				return
			}
			judge(fn, x.X, at, depth+1)
		case *ssa.ChangeType:
			judge(fn, x.X, at, depth+1)
		case *ssa.Const:
			// a fixed text
		case *ssa.Extract:
			// text the application supplies through a function value (the partial feeder): an origin
			if c, isCall := x.Tuple.(*ssa.Call); isCall && c.Call.StaticCallee() == nil && !c.Call.IsInvoke() {
				if _, isB := c.Call.Value.(*ssa.Builtin); !isB {
					return
				}
			}
			bad(fn, at, "the text handed on is the result of a call, not the text that was given")
		case *ssa.Call:
			if x.Call.StaticCallee() == nil && !x.Call.IsInvoke() {
				if _, isB := x.Call.Value.(*ssa.Builtin); !isB {
					return // as above
				}
			}
			// a helper of the module that hands back a string: what it returns is judged in its place
			if g := x.Call.StaticCallee(); g != nil && inModule(g) && len(g.Blocks) > 0 && g.Signature.Results().Len() == 1 && depth < 6 {
				for _, b := range g.Blocks {
					if ret, isRet := b.Instrs[len(b.Instrs)-1].(*ssa.Return); isRet && len(ret.Results) == 1 {
						judge(g, ret.Results[0], ret.Pos(), depth+1)
					}
				}
				return
			}
			pkg, name := staticCalleeName(x)
			bad(fn, at, "the text handed on is the result of "+pkg+"."+name+": the template is no longer copied byte for byte (literal text, strings and line structure are those of the rewritten text)")
		case *ssa.BinOp:
			if why, ok := c02PipeExceptions[ssaName(root)]; ok {
				r.Note("R7 exception %s: %s", ssaName(root), why)
				return
			}
			bad(fn, at, "the text handed on is computed ("+x.Op.String()+")")
		case *ssa.Slice:
			bad(fn, at, "only a part of the text is handed on")
		default:
			bad(fn, at, fmt.Sprintf("the text handed on is not the text that was given (%T)", v))
		}
	}
	// 0. inside the constructor: what is stored as the input
	nStores := 0
	for _, b := range ctor.Blocks {
		for _, ins := range b.Instrs {
			st, ok := ins.(*ssa.Store)
			if !ok {
				continue
			}
			fa, ok := st.Addr.(*ssa.FieldAddr)
			if !ok || fieldOfAddr(fa) != m.input {
				continue
			}
			nStores++
			judge(ctor, st.Val, st.Pos(), 0)
		}
	}
	if nStores == 0 {
		r.Lost(rule, "store of the input in the lexer constructor")
		return
	}
	// every other store to the lexer's input field, anywhere in the module
	allFns := func() []*ssa.Function {
		var out []*ssa.Function
		for _, rel := range []string{"", "parser", "lexer"} {
			for _, f := range w.Funcs(rel) {
				if fn := w.SSAFunc(f); fn != nil {
					out = append(out, fn)
					out = append(out, allAnon(fn)...)
				}
			}
		}
		return out
	}()
	for _, fn := range allFns {
		if fn == ctor {
			continue
		}
		for _, b := range fn.Blocks {
			for _, ins := range b.Instrs {
				if st, ok := ins.(*ssa.Store); ok {
					if fa, ok := st.Addr.(*ssa.FieldAddr); ok && fieldOfAddr(fa) == m.input {
						judge(fn, st.Val, st.Pos(), 0)
					}
				}
			}
		}
	}
	seenField := map[*types.Var]bool{}
	for len(work) > 0 || len(fieldWork) > 0 {
		if len(work) > 0 {
			p := work[len(work)-1]
			work = work[:len(work)-1]
			// exported entry points are where the text comes from; the others are judged at their call sites
			sites := w.staticCallSites(p.fn)
			for _, s := range sites {
				if p.idx < len(s.Common().Args) && s.Parent() != nil && inModule(s.Parent()) {
					judge(s.Parent(), s.Common().Args[p.idx], s.Pos(), 0)
				}
			}
			continue
		}
		fld := fieldWork[len(fieldWork)-1]
		fieldWork = fieldWork[:len(fieldWork)-1]
		if seenField[fld] {
			continue
		}
		seenField[fld] = true
		for _, fn := range allFns {
			for _, b := range fn.Blocks {
				for _, ins := range b.Instrs {
					if st, ok := ins.(*ssa.Store); ok {
						if fa, ok := st.Addr.(*ssa.FieldAddr); ok && fieldOfAddr(fa) == fld {
							judge(fn, st.Val, st.Pos(), 0)
						}
					}
				}
			}
		}
	}
	if nBad == 0 {
		var names []string
		for p := range textParam {
			names = append(names, fmt.Sprintf("%s#%d", p.fn.Name(), p.idx))
		}
		for f := range textField {
			names = append(names, "field "+f.Name())
		}
		sort.Strings(names)
		r.Ok(rule, "-", "the template text reaches the lexer unchanged", "-", fmt.Sprintf("every hop hands on a parameter, a text field or bytes read from outside: %v", names))
	}
}
