package main

import (
	"fmt"
	"go/ast"
	"go/token"
	"go/types"
	"sort"
	"sync"

	"golang.org/x/tools/go/ssa"
)

// nilModel is the nilability summary of the recursive-descent parser: which
// parse functions may return nil, which AST fields (and slice/map elements)
// may therefore be nil, and which parameters may receive nil.
type nilModel struct {
	w          *World
	pm         *parserModel
	info       *types.Info
	fnMayNil   map[*types.Func]bool
	fnElemNil  map[*types.Func]bool // returns a slice whose elements may be nil
	fieldNil   map[*types.Var]bool
	fieldElem  map[*types.Var]bool // slice elements / map keys+values may be nil
	paramNil   map[*types.Var]bool
	validators map[*types.Func]bool // func(x) bool that returns true only if x != nil
	inverse    map[*types.Func]bool // func(x) bool that returns false only if x != nil (isBlank, isMissing)
	funcs      []*FuncInfo          // parser methods + closures are handled inline
	fieldWhy   map[*types.Var]string
	pathsMu    sync.Mutex
	pathsMemo  map[*ssa.Function]*nilPathsOf
}

func isASTRef(t types.Type) bool {
	if t == nil {
		return false
	}
	if _, ok := t.Underlying().(*types.Interface); ok {
		return declaredIn(t, astPath)
	}
	if p, ok := t.(*types.Pointer); ok {
		return declaredIn(p.Elem(), astPath)
	}
	return false
}

func buildNilModel(w *World) *nilModel {
	pm := w.parserModel()
	nm := &nilModel{w: w, pm: pm, info: pm.info,
		fnMayNil: map[*types.Func]bool{}, fnElemNil: map[*types.Func]bool{}, fieldNil: map[*types.Var]bool{}, fieldElem: map[*types.Var]bool{},
		paramNil: map[*types.Var]bool{}, validators: map[*types.Func]bool{}, inverse: map[*types.Func]bool{}, fieldWhy: map[*types.Var]string{}}
	nm.funcs = w.Funcs("parser") // methods of the parser and the plain functions beside them
	info := nm.info
	// validators: bool functions whose first statement is `if p == nil { ...; return [false] }`
	for _, f := range w.Funcs("parser") {
		sig := f.Obj.Type().(*types.Signature)
		if sig.Params().Len() != 1 || sig.Results().Len() != 1 || !isBasicKind(sig.Results().At(0).Type(), types.Bool) || len(f.Decl.Body.List) == 0 {
			continue
		}
		if assertionValidator(info, f) || nm.trueOnlyIfNonNil(info, w, f, true) {
			nm.validators[f.Obj] = true
			continue
		}
		if nm.trueOnlyIfNonNil(info, w, f, false) {
			nm.inverse[f.Obj] = true
			continue
		}
		ifs, ok := f.Decl.Body.List[0].(*ast.IfStmt)
		if !ok {
			continue
		}
		be, ok := unparen(ifs.Cond).(*ast.BinaryExpr)
		if !ok || be.Op != token.EQL || !isNilIdent(info, be.Y) || objOf(info, be.X) != sig.Params().At(0) || len(ifs.Body.List) == 0 {
			continue
		}
		ret, ok := ifs.Body.List[len(ifs.Body.List)-1].(*ast.ReturnStmt)
		if !ok {
			continue
		}
		if len(ret.Results) == 0 {
			// bare return of a named bool result that has not been set to true yet
			nm.validators[f.Obj] = true
		} else if tv := info.Types[ret.Results[0]]; tv.Value != nil && tv.Value.ExactString() == "false" {
			nm.validators[f.Obj] = true
		}
	}
	// infix-registered functions receive the (possibly nil) left operand
	for _, reg := range pm.regs {
		if reg.Infix && reg.Fn != nil {
			sig := reg.Fn.Obj.Type().(*types.Signature)
			if sig.Params().Len() == 1 {
				nm.paramNil[sig.Params().At(0)] = true
			}
		}
	}
	// fixpoint
	for round := 0; round < 8; round++ {
		changed := false
		set := func(m map[*types.Func]bool, k *types.Func) {
			if !m[k] {
				m[k] = true
				changed = true
			}
		}
		for _, f := range nm.funcs {
			sig := f.Obj.Type().(*types.Signature)
			if sig.Results().Len() != 1 {
				continue
			}
			rt := sig.Results().At(0).Type()
			if isASTRef(rt) {
				for _, ret := range returnsIn(f.Decl.Body) {
					if len(ret.Results) == 1 && nm.mayNil(f, ret.Results[0], ret.Pos()) {
						set(nm.fnMayNil, f.Obj)
					}
					if len(ret.Results) == 0 && sig.Results().At(0).Name() != "" {
						// named result: nil unless assigned non-nil on all paths; be conservative
						if nm.localMayNil(f, sig.Results().At(0), ret.Pos()) {
							set(nm.fnMayNil, f.Obj)
						}
					}
				}
			}
			if sl, ok := rt.(*types.Slice); ok && isASTRef(sl.Elem()) {
				// appends of may-nil elements to the returned slice
				inspectBody(f.Decl.Body, false, func(n ast.Node) bool {
					c, ok := n.(*ast.CallExpr)
					if !ok || builtinName(info, c) != "append" {
						return true
					}
					for _, a := range c.Args[1:] {
						if nm.mayNil(f, a, a.Pos()) {
							set(nm.fnElemNil, f.Obj)
						}
					}
					return true
				})
			}
		}
		// parameters: may-nil if some call site passes a may-nil argument
		for _, f := range nm.funcs {
			for _, c := range callsIn(f.Decl.Body, false) {
				cal := calleeOf(info, c)
				if cal == nil || w.FuncOf(cal) == nil || w.FuncOf(cal).Rel != "parser" {
					continue
				}
				sig := cal.Type().(*types.Signature)
				for i, a := range c.Args {
					if i >= sig.Params().Len() || !isASTRef(sig.Params().At(i).Type()) {
						continue
					}
					if nm.mayNil(f, a, a.Pos()) && !nm.paramNil[sig.Params().At(i)] {
						nm.paramNil[sig.Params().At(i)] = true
						changed = true
					}
				}
			}
		}
		if nm.fieldSummary() {
			changed = true
		}
		if !changed {
			break
		}
	}
	return nm
}

// assertionValidator: a func(x) bool whose first statement is `v, ok := x.(T)`
// followed by `if !ok { return false }`: it returns true only when x holds a
// T, in particular only when x is not nil.
func assertionValidator(info *types.Info, f *FuncInfo) bool {
	sig := f.Obj.Type().(*types.Signature)
	if len(f.Decl.Body.List) < 2 {
		return false
	}
	as, ok := f.Decl.Body.List[0].(*ast.AssignStmt)
	if !ok || len(as.Lhs) != 2 || len(as.Rhs) != 1 {
		return false
	}
	ta, ok := unparen(as.Rhs[0]).(*ast.TypeAssertExpr)
	if !ok || ta.Type == nil || objOf(info, ta.X) != sig.Params().At(0) {
		return false
	}
	okVar := objOf(info, as.Lhs[1])
	ifs, ok := f.Decl.Body.List[1].(*ast.IfStmt)
	if !ok || len(ifs.Body.List) != 1 {
		return false
	}
	u, ok := unparen(ifs.Cond).(*ast.UnaryExpr)
	if !ok || u.Op != token.NOT || objOf(info, u.X) != okVar {
		return false
	}
	ret, ok := ifs.Body.List[0].(*ast.ReturnStmt)
	if !ok || len(ret.Results) != 1 {
		return false
	}
	tv := info.Types[ret.Results[0]]
	return tv.Value != nil && tv.Value.ExactString() == "false"
}

// trueOnlyIfNonNil: a func(x) bool without named result in which every return
// either yields the constant false, or sits where x is known to be non-nil
// (under a successful type assertion of x, behind `x != nil`), or returns a
// conjunction with the conjunct `x != nil`: it returns true only if x != nil.
//
// With want == false the mirror image: it returns false only if x != nil (every return yields the constant true, sits
// where x is non-nil, or returns a disjunction with the disjunct `x == nil`).
func (nm *nilModel) trueOnlyIfNonNil(info *types.Info, w *World, f *FuncInfo, want bool) bool {
	sig := f.Obj.Type().(*types.Signature)
	if sig.Results().At(0).Name() != "" {
		return false
	}
	param := sig.Params().At(0)
	var use ast.Expr
	ast.Inspect(f.Decl.Body, func(n ast.Node) bool {
		if id, ok := n.(*ast.Ident); ok && use == nil && info.Uses[id] == types.Object(param) {
			use = id
		}
		return true
	})
	if use == nil {
		return false
	}
	rets := returnsIn(f.Decl.Body)
	if len(rets) == 0 {
		return false
	}
	for _, ret := range rets {
		if len(ret.Results) != 1 {
			return false
		}
		e := ret.Results[0]
		other := "false"
		if !want {
			other = "true"
		}
		if tv := info.Types[e]; tv.Value != nil && tv.Value.ExactString() == other {
			continue
		}
		if nm.guarded(info, w, use, ret) {
			continue
		}
		ok := false
		parts, op := conjuncts(e), token.NEQ
		if !want {
			parts, op = disjuncts(e), token.EQL
		}
		for _, cj := range parts {
			if be, isBE := unparen(cj).(*ast.BinaryExpr); isBE && be.Op == op {
				if (isNilIdent(info, be.Y) && objOf(info, be.X) == types.Object(param)) || (isNilIdent(info, be.X) && objOf(info, be.Y) == types.Object(param)) {
					ok = true
				}
			}
		}
		if !ok {
			return false
		}
	}
	return true
}

// terminates: the statement list ends by leaving the enclosing flow.
func terminates(list []ast.Stmt) bool {
	if len(list) == 0 {
		return false
	}
	switch s := list[len(list)-1].(type) {
	case *ast.ReturnStmt:
		return true
	case *ast.BranchStmt:
		return s.Tok == token.CONTINUE || s.Tok == token.BREAK || s.Tok == token.GOTO
	case *ast.ExprStmt:
		if c, ok := s.X.(*ast.CallExpr); ok {
			if id, ok := c.Fun.(*ast.Ident); ok && id.Name == "panic" {
				return true
			}
		}
	}
	return false
}

// guarded: at position pos the expression e is known to be non-nil because
// of an enclosing `if e != nil`, a preceding `if e == nil { leave }`, a
// validator guard, or a left conjunct `e != nil &&`.
func (nm *nilModel) guarded(info *types.Info, w *World, e ast.Expr, at ast.Node) bool {
	isNonNilTest := func(c ast.Expr) bool {
		be, ok := unparen(c).(*ast.BinaryExpr)
		if !ok || be.Op != token.NEQ {
			return false
		}
		return (isNilIdent(info, be.Y) && sameObjExpr(info, be.X, e)) || (isNilIdent(info, be.X) && sameObjExpr(info, be.Y, e))
	}
	isNilTest := func(c ast.Expr) bool {
		be, ok := unparen(c).(*ast.BinaryExpr)
		if !ok || be.Op != token.EQL {
			return false
		}
		return (isNilIdent(info, be.Y) && sameObjExpr(info, be.X, e)) || (isNilIdent(info, be.X) && sameObjExpr(info, be.Y, e))
	}
	isFailedValidator := func(c ast.Expr) bool {
		if call, isCall := unparen(c).(*ast.CallExpr); isCall && len(call.Args) == 1 {
			cal := calleeOf(info, call)
			return cal != nil && nm.inverse[cal] && sameObjExpr(info, call.Args[0], e)
		}
		u, ok := unparen(c).(*ast.UnaryExpr)
		if !ok || u.Op != token.NOT {
			return false
		}
		call, ok := unparen(u.X).(*ast.CallExpr)
		if !ok || len(call.Args) != 1 {
			return false
		}
		cal := calleeOf(info, call)
		return cal != nil && nm.validators[cal] && sameObjExpr(info, call.Args[0], e)
	}
	isPassedValidator := func(c ast.Expr) bool {
		if u, isNot := unparen(c).(*ast.UnaryExpr); isNot && u.Op == token.NOT {
			// !isBlank(e): the predicate says false only of a value that is there
			call, ok := unparen(u.X).(*ast.CallExpr)
			if !ok || len(call.Args) != 1 {
				return false
			}
			cal := calleeOf(info, call)
			return cal != nil && nm.inverse[cal] && sameObjExpr(info, call.Args[0], e)
		}
		call, ok := unparen(c).(*ast.CallExpr)
		if !ok || len(call.Args) != 1 {
			return false
		}
		cal := calleeOf(info, call)
		return cal != nil && nm.validators[cal] && sameObjExpr(info, call.Args[0], e)
	}
	var child ast.Node = at
	for p := w.Parent(at); p != nil; child, p = p, w.Parent(p) {
		switch x := p.(type) {
		case *ast.BinaryExpr:
			// e != nil && <use>
			if x.Op == token.LAND && child == ast.Node(x.Y) {
				for _, cj := range conjuncts(x.X) {
					if isNonNilTest(cj) {
						return true
					}
				}
			}
			if x.Op == token.LOR && child == ast.Node(x.Y) {
				for _, d := range disjuncts(x.X) {
					if isNilTest(d) {
						return true
					}
				}
			}
		case *ast.IfStmt:
			if child == ast.Node(x.Body) {
				for _, cj := range conjuncts(x.Cond) {
					if isNonNilTest(cj) || isPassedValidator(cj) {
						return true
					}
				}
				// A || B: every alternative establishes e != nil
				if ds := disjuncts(x.Cond); len(ds) > 1 {
					all := true
					for _, d := range ds {
						one := false
						for _, cj := range conjuncts(d) {
							if isNonNilTest(cj) || isPassedValidator(cj) {
								one = true
							}
						}
						if !one {
							all = false
						}
					}
					if all {
						return true
					}
				}
				// if t, ok := e.(T); ok { ... }: a successful assertion implies e != nil
				if as, ok := x.Init.(*ast.AssignStmt); ok && len(as.Lhs) == 2 && len(as.Rhs) == 1 {
					if ta, ok := unparen(as.Rhs[0]).(*ast.TypeAssertExpr); ok && sameObjExpr(info, ta.X, e) {
						for _, cj := range conjuncts(x.Cond) {
							if objOf(info, cj) != nil && objOf(info, cj) == objOf(info, as.Lhs[1]) {
								return true
							}
						}
					}
				}
			}
			if x.Else != nil && child == ast.Node(x.Else) {
				for _, d := range disjuncts(x.Cond) {
					if isNilTest(d) {
						return true
					}
				}
			}
		case *ast.BlockStmt:
			for _, st := range x.List {
				if st == child {
					break
				}
				ifs, ok := st.(*ast.IfStmt)
				if !ok || !terminates(ifs.Body.List) {
					continue
				}
				for _, d := range disjuncts(ifs.Cond) {
					if isNilTest(d) || isFailedValidator(d) {
						return true
					}
				}
			}
		case *ast.CaseClause:
			for _, st := range x.Body {
				if st == child {
					break
				}
				ifs, ok := st.(*ast.IfStmt)
				if !ok || !terminates(ifs.Body.List) {
					continue
				}
				for _, d := range disjuncts(ifs.Cond) {
					if isNilTest(d) || isFailedValidator(d) {
						return true
					}
				}
			}
		case *ast.FuncDecl, *ast.FuncLit:
			return false
		}
	}
	return false
}

// localMayNil: some assignment to the local (anywhere in f) has a may-nil
// right-hand side, or it is declared without a value.
func (nm *nilModel) localMayNil(f *FuncInfo, o types.Object, pos token.Pos) bool {
	info := f.Pkg.TypesInfo
	if v, ok := o.(*types.Var); ok && nm.paramNil[v] {
		return true
	}
	may := false
	nAssign := 0
	ast.Inspect(f.Decl.Body, func(n ast.Node) bool {
		switch x := n.(type) {
		case *ast.AssignStmt:
			for i, l := range x.Lhs {
				if objOf(info, l) != o {
					continue
				}
				nAssign++
				if len(x.Rhs) == len(x.Lhs) {
					if nm.mayNil(f, x.Rhs[i], x.Rhs[i].Pos()) {
						may = true
					}
				} else if len(x.Rhs) == 1 {
					// v, ok := y.(T): non-nil under ok (uses outside are checked by commaOKUse)
					if _, isTA := unparen(x.Rhs[0]).(*ast.TypeAssertExpr); isTA && i == 0 {
						continue
					}
					if ix, isIx := unparen(x.Rhs[0]).(*ast.IndexExpr); isIx && i == 0 {
						if nm.mayNil(f, ix, ix.Pos()) {
							may = true
						}
						continue
					}
					// a, b := helper(...): result i of the helper, read from its value graph
					if call, isCall := unparen(x.Rhs[0]).(*ast.CallExpr); isCall {
						if cal := calleeOf(info, call); cal != nil {
							if g := nm.w.SSA().FuncValue(cal); g != nil && nm.w.resultNonNil(g, i) {
								continue
							}
						}
					}
					may = true
				}
			}
		case *ast.ValueSpec:
			for i, nme := range x.Names {
				if info.Defs[nme] != o {
					continue
				}
				if i < len(x.Values) {
					nAssign++
					if nm.mayNil(f, x.Values[i], x.Values[i].Pos()) {
						may = true
					}
				}
			}
		case *ast.RangeStmt:
			if x.Value != nil && objOf(info, x.Value) == o {
				nAssign++
				if nm.elemMayNil(f, x.X) {
					may = true
				}
			}
			if x.Key != nil && objOf(info, x.Key) == o {
				nAssign++
				if tv, ok := info.Types[x.X]; ok {
					if _, isMap := tv.Type.Underlying().(*types.Map); isMap && nm.elemMayNil(f, x.X) {
						may = true
					}
				}
			}
		}
		return true
	})
	// named results / vars without initial value that are only conditionally assigned
	if v, ok := o.(*types.Var); ok && !may {
		sig := f.Obj.Type().(*types.Signature)
		for i := 0; i < sig.Results().Len(); i++ {
			if sig.Results().At(i) == v {
				may = true // a named result starts as nil
			}
		}
	}
	return may
}

// elemMayNil: the elements of the slice/map expression may be nil.
func (nm *nilModel) elemMayNil(f *FuncInfo, e ast.Expr) bool {
	info := f.Pkg.TypesInfo
	e = unparen(e)
	if _, fld := fieldOf(info, e); fld != nil {
		return nm.fieldElem[fld]
	}
	if c, ok := e.(*ast.CallExpr); ok {
		if cal := calleeOf(info, c); cal != nil {
			return nm.fnElemNil[cal]
		}
	}
	if o := objOf(info, e); o != nil {
		may := false
		ast.Inspect(f.Decl.Body, func(n ast.Node) bool {
			as, ok := n.(*ast.AssignStmt)
			if !ok {
				return true
			}
			for i, l := range as.Lhs {
				if objOf(info, l) != o || i >= len(as.Rhs) {
					continue
				}
				rhs := unparen(as.Rhs[i])
				if c, ok := rhs.(*ast.CallExpr); ok {
					if builtinName(info, c) == "append" {
						for _, a := range c.Args[1:] {
							if nm.mayNil(f, a, a.Pos()) {
								may = true
							}
						}
					} else if cal := calleeOf(info, c); cal != nil && nm.fnElemNil[cal] {
						may = true
					}
				}
			}
			return true
		})
		return may
	}
	return false
}

// mayNil: the expression may evaluate to nil at this point of f.
func (nm *nilModel) mayNil(f *FuncInfo, e ast.Expr, pos token.Pos) bool {
	info := f.Pkg.TypesInfo
	w := nm.w
	e = unparen(e)
	if isNilIdent(info, e) {
		return true
	}
	switch x := e.(type) {
	case *ast.CompositeLit, *ast.FuncLit, *ast.BasicLit:
		return false
	case *ast.UnaryExpr:
		if x.Op == token.AND {
			return false
		}
	case *ast.CallExpr:
		if _, isConv := isConversion(info, x); isConv {
			return len(x.Args) == 1 && nm.mayNil(f, x.Args[0], pos)
		}
		if b := builtinName(info, x); b != "" {
			return false
		}
		cal := calleeOf(info, x)
		if cal == nil {
			// registry call prefix()/infix(left): some registered function may return nil
			for _, reg := range nm.pm.regs {
				if reg.Lit != nil || (reg.Fn != nil && nm.fnMayNil[reg.Fn.Obj]) {
					return true
				}
			}
			return false
		}
		return nm.fnMayNil[cal]
	case *ast.Ident:
		o := objOf(info, x)
		if o == nil {
			return false
		}
		if !isASTRef(o.Type()) {
			if _, isSlice := o.Type().Underlying().(*types.Slice); !isSlice {
				return false
			}
		}
		if nm.guarded(info, w, x, x) {
			return false
		}
		// type-switch bound variable in a non-default clause
		if cc := implicitClause(info, w, x); cc != nil {
			return cc.List == nil
		}
		// comma-ok assertion result used under its ok flag
		if okVar := commaOKPartner(info, f, o); okVar != nil {
			if underOK(info, w, x, okVar) {
				return false
			}
			return true
		}
		if nm.guarded(info, w, x, x) {
			return false
		}
		return nm.localMayNil(f, o, pos)
	case *ast.SelectorExpr:
		bx, fld := fieldOf(info, x)
		if fld == nil {
			return false
		}
		if !isASTRef(fld.Type()) {
			return false
		}
		if nm.guarded(info, w, x, x) {
			return false
		}
		// local node under construction: use this function's assignments only
		if bo := objOf(info, bx); bo != nil {
			if st, known := nm.localFieldState(f, bo, fld, pos); known {
				return st
			}
		}
		return nm.fieldNil[fld]
	case *ast.IndexExpr:
		if nm.guarded(info, w, x, x) {
			return false
		}
		if tv, ok := info.Types[x]; ok && isASTRef(tv.Type) {
			return nm.elemMayNil(f, x.X)
		}
	case *ast.TypeAssertExpr:
		return false
	}
	return false
}

func implicitClause(info *types.Info, w *World, id *ast.Ident) *ast.CaseClause {
	o := info.Uses[id]
	if o == nil {
		return nil
	}
	for p := w.Parent(id); p != nil; p = w.Parent(p) {
		if cc, ok := p.(*ast.CaseClause); ok {
			if info.Implicits[cc] == o {
				return cc
			}
		}
		if _, ok := p.(*ast.FuncDecl); ok {
			break
		}
	}
	return nil
}

// commaOKPartner: o is defined as `o, ok := x.(T)`; returns the ok variable.
func commaOKPartner(info *types.Info, f *FuncInfo, o types.Object) types.Object {
	var partner types.Object
	ast.Inspect(f.Decl.Body, func(n ast.Node) bool {
		as, ok := n.(*ast.AssignStmt)
		if !ok || len(as.Lhs) != 2 || len(as.Rhs) != 1 {
			return true
		}
		if _, isTA := unparen(as.Rhs[0]).(*ast.TypeAssertExpr); !isTA {
			return true
		}
		if objOf(info, as.Lhs[0]) == o {
			partner = objOf(info, as.Lhs[1])
		}
		return true
	})
	return partner
}

func underOK(info *types.Info, w *World, at ast.Node, okVar types.Object) bool {
	// the ok flag is known true: enclosing `if ok`, a preceding `if !ok { leave }`, or a left conjunct `ok && <use>`
	isOK := func(cond ast.Expr, truth bool) bool {
		cond = unparen(cond)
		if u, isNot := cond.(*ast.UnaryExpr); isNot && u.Op == token.NOT {
			cond, truth = unparen(u.X), !truth
		}
		return truth && objOf(info, cond) == okVar
	}
	if w.dominatedBy(info, at, []types.Object{okVar}, isOK) {
		return true
	}
	var child ast.Node = at
	for p := w.Parent(at); p != nil; child, p = p, w.Parent(p) {
		if be, ok := p.(*ast.BinaryExpr); ok && be.Op == token.LAND && child == ast.Node(be.Y) {
			for _, cj := range conjuncts(be.X) {
				if isOK(cj, true) {
					return true
				}
			}
		}
		// !ok || <use>: the right operand runs only when the left one was false
		if be, ok := p.(*ast.BinaryExpr); ok && be.Op == token.LOR && child == ast.Node(be.Y) {
			for _, dj := range disjuncts(be.X) {
				if isOK(dj, false) {
					return true
				}
			}
		}
		if _, ok := p.(ast.Stmt); ok {
			// the condition of an if is part of the statement: keep climbing only through expressions
			if ifs, isIf := p.(*ast.IfStmt); !isIf || child != ast.Node(ifs.Cond) {
				break
			}
		}
	}
	return false
}

// localFieldState: for a local that holds a node built in this function
// (assigned a composite literal), decide from this function's own
// assignments whether base.fld may be nil at pos. known=false when base is
// not such a local.
func (nm *nilModel) localFieldState(f *FuncInfo, base types.Object, fld *types.Var, pos token.Pos) (may bool, known bool) {
	info := f.Pkg.TypesInfo
	var lit *ast.CompositeLit
	ast.Inspect(f.Decl.Body, func(n ast.Node) bool {
		as, ok := n.(*ast.AssignStmt)
		if !ok || len(as.Lhs) != len(as.Rhs) {
			return true
		}
		for i, l := range as.Lhs {
			if objOf(info, l) != base {
				continue
			}
			e := unparen(as.Rhs[i])
			if u, ok := e.(*ast.UnaryExpr); ok && u.Op == token.AND {
				e = u.X
			}
			if cl, ok := e.(*ast.CompositeLit); ok {
				lit = cl
			}
		}
		return true
	})
	if lit == nil {
		return false, false
	}
	// last write before pos wins (source order approximation inside one function)
	state, seen := true, false // unassigned pointer/interface field is nil
	for _, e := range lit.Elts {
		if kv, ok := e.(*ast.KeyValueExpr); ok {
			if k, _ := kv.Key.(*ast.Ident); k != nil && info.Uses[k] == types.Object(fld) {
				state, seen = nm.mayNil(f, kv.Value, kv.Value.Pos()), true
			}
		}
	}
	type wr struct {
		pos token.Pos
		may bool
	}
	var writes []wr
	ast.Inspect(f.Decl.Body, func(n ast.Node) bool {
		as, ok := n.(*ast.AssignStmt)
		if !ok || len(as.Lhs) != len(as.Rhs) {
			return true
		}
		for i, l := range as.Lhs {
			bx, lf := fieldOf(info, l)
			if lf != fld || objOf(info, bx) != base {
				continue
			}
			writes = append(writes, wr{as.Pos(), nm.mayNil(f, as.Rhs[i], as.Rhs[i].Pos())})
		}
		return true
	})
	sort.Slice(writes, func(i, j int) bool { return writes[i].pos < writes[j].pos })
	for _, wv := range writes {
		if wv.pos < pos {
			state, seen = wv.may, true
		}
	}
	_ = seen
	return state, true
}

// fieldSummary recomputes which AST fields may be nil; returns true if the
// summary grew.
func (nm *nilModel) fieldSummary() bool {
	info := nm.info
	w := nm.w
	changed := false
	mark := func(m map[*types.Var]bool, f *types.Var, why string) {
		if !m[f] {
			m[f] = true
			changed = true
			if nm.fieldWhy[f] == "" {
				nm.fieldWhy[f] = why
			}
		}
	}
	for _, f := range nm.funcs {
		// every composite literal of an ast struct type built here
		ast.Inspect(f.Decl.Body, func(n ast.Node) bool {
			cl, ok := n.(*ast.CompositeLit)
			if !ok {
				return true
			}
			t := info.Types[cl].Type
			st, ok := t.Underlying().(*types.Struct)
			if !ok || !declaredIn(t, astPath) {
				return true
			}
			// the local that receives it
			var holder types.Object
			var holderStmt ast.Stmt
			for p := w.Parent(cl); p != nil; p = w.Parent(p) {
				if as, ok := p.(*ast.AssignStmt); ok && len(as.Lhs) == len(as.Rhs) {
					for i, rhs := range as.Rhs {
						e := unparen(rhs)
						if u, ok := e.(*ast.UnaryExpr); ok {
							e = u.X
						}
						if e == ast.Expr(cl) {
							holder = objOf(info, as.Lhs[i])
							holderStmt = as
						}
					}
					break
				}
				if _, ok := p.(ast.Stmt); ok {
					break
				}
			}
			for i := 0; i < st.NumFields(); i++ {
				fld := st.Field(i)
				ref := isASTRef(fld.Type())
				_, isSlice := fld.Type().Underlying().(*types.Slice)
				_, isMap := fld.Type().Underlying().(*types.Map)
				if !ref && !isSlice && !isMap {
					continue
				}
				// value in the literal
				var init ast.Expr
				for _, e := range cl.Elts {
					if kv, ok := e.(*ast.KeyValueExpr); ok {
						if k, _ := kv.Key.(*ast.Ident); k != nil && info.Uses[k] == types.Object(fld) {
							init = kv.Value
						}
					}
				}
				if ref {
					nonNil := init != nil && !nm.mayNil(f, init, init.Pos())
					if !nonNil && holder != nil {
						nonNil = nm.definitelyAssigned(f, holder, holderStmt, fld)
					}
					if !nonNil {
						nonNil = nm.assignedOnPaths(f, t, fld)
					}
					if !nonNil {
						mark(nm.fieldNil, fld, fmt.Sprintf("not assigned a non-nil value on every success path of %s", f.Name()))
					}
				}
				if (isSlice || isMap) && init != nil && nm.elemMayNil(f, init) {
					mark(nm.fieldElem, fld, "initialised from a slice with may-nil elements in "+f.Name())
				}
			}
			return true
		})
		// assignments X.F = rhs / X.F[k] = v / X.F = append(X.F, e) anywhere
		ast.Inspect(f.Decl.Body, func(n ast.Node) bool {
			as, ok := n.(*ast.AssignStmt)
			if !ok || len(as.Lhs) != len(as.Rhs) {
				return true
			}
			for i, l := range as.Lhs {
				rhs := as.Rhs[i]
				if ix, ok := unparen(l).(*ast.IndexExpr); ok {
					if _, fld := fieldOf(info, ix.X); fld != nil && declaredIn(fieldOwner(info, ix.X), astPath) {
						if nm.mayNil(f, rhs, rhs.Pos()) || nm.mayNil(f, ix.Index, ix.Index.Pos()) {
							mark(nm.fieldElem, fld, "element assigned a may-nil value in "+f.Name())
						}
					}
					continue
				}
				bx, fld := fieldOf(info, l)
				if fld == nil || !declaredIn(fieldOwner(info, l), astPath) {
					continue
				}
				if isASTRef(fld.Type()) {
					// assignments to a node that was NOT built in this function (e.g. assignCallee)
					if bo := objOf(info, bx); bo != nil {
						if _, known := nm.localFieldState(f, bo, fld, as.End()); known {
							continue // covered by the constructor analysis
						}
					}
					if nm.mayNil(f, rhs, rhs.Pos()) {
						mark(nm.fieldNil, fld, "assigned a may-nil value in "+f.Name())
					}
				}
				if c, ok := unparen(rhs).(*ast.CallExpr); ok {
					if builtinName(info, c) == "append" {
						for _, a := range c.Args[1:] {
							if nm.mayNil(f, a, a.Pos()) {
								mark(nm.fieldElem, fld, "may-nil element appended in "+f.Name())
							}
						}
					} else if cal := calleeOf(info, c); cal != nil && nm.fnElemNil[cal] {
						mark(nm.fieldElem, fld, "assigned the result of "+cal.Name()+" whose elements may be nil")
					}
				}
			}
			return true
		})
	}
	return changed
}

func fieldOwner(info *types.Info, e ast.Expr) types.Type {
	sel, ok := unparen(e).(*ast.SelectorExpr)
	if !ok {
		return nil
	}
	if tv, ok := info.Types[sel.X]; ok {
		return tv.Type
	}
	return nil
}

// definitelyAssigned: between the construction of holder and every success
// return of f, holder.fld is assigned a non-nil value by a top-level
// statement of the function body (or validated by a validator guard), with
// only failure returns (return nil) in between.
func (nm *nilModel) definitelyAssigned(f *FuncInfo, holder types.Object, holderStmt ast.Stmt, fld *types.Var) bool {
	info := f.Pkg.TypesInfo
	started := false
	for _, st := range f.Decl.Body.List {
		if st == holderStmt {
			started = true
			continue
		}
		if !started {
			continue
		}
		switch x := st.(type) {
		case *ast.AssignStmt:
			if len(x.Lhs) == len(x.Rhs) {
				for i, l := range x.Lhs {
					bx, lf := fieldOf(info, l)
					if lf == fld && objOf(info, bx) == holder {
						if !nm.mayNil(f, x.Rhs[i], x.Rhs[i].Pos()) {
							return true
						}
					}
				}
			}
		case *ast.IfStmt:
			// validator guard: if !validate(holder.fld) { return nil }
			if terminates(x.Body.List) {
				for _, d := range disjuncts(x.Cond) {
					if u, ok := unparen(d).(*ast.UnaryExpr); ok && u.Op == token.NOT {
						if c, ok := unparen(u.X).(*ast.CallExpr); ok && len(c.Args) == 1 {
							if cal := calleeOf(info, c); cal != nil && nm.validators[cal] {
								if bx, lf := fieldOf(info, c.Args[0]); lf == fld && objOf(info, bx) == holder {
									return true
								}
							}
						}
					}
				}
			}
			// a success return inside a conditional before the assignment: not definitely assigned
			bad := false
			ast.Inspect(x, func(n ast.Node) bool {
				if ret, ok := n.(*ast.ReturnStmt); ok && len(ret.Results) == 1 && !isNilIdent(info, ret.Results[0]) {
					bad = true
				}
				return true
			})
			if bad {
				return false
			}
		case *ast.ReturnStmt:
			return false
		}
	}
	return false
}

// nilSafetyRule checks every dereference site.
func nilSafetyRule(r *Run, rule string) {
	w := r.W
	pm := w.parserModel()
	if len(pm.problems) > 0 {
		r.Lost(rule, "parser model")
		return
	}
	nm := buildNilModel(w)
	// sites: parser methods, ast methods, and the printers of the root package that print AST nodes
	var fns []*FuncInfo
	fns = append(fns, w.Funcs("parser")...)
	fns = append(fns, w.Funcs("ast")...)
	if uf := w.NamedType("", "userFunction"); uf != nil {
		for _, f := range w.Funcs("") {
			if isMethodOf(f, uf) {
				fns = append(fns, f)
			}
		}
	}
	for _, f := range fns {
		info := f.Pkg.TypesInfo
		ast.Inspect(f.Decl.Body, func(n ast.Node) bool {
			sel, ok := n.(*ast.SelectorExpr)
			if !ok {
				return true
			}
			tv, ok := info.Types[sel.X]
			if !ok || !isASTRef(tv.Type) {
				return true
			}
			// a dereference: method call on, or field access through, sel.X
			s := info.Selections[sel]
			if s == nil {
				return true
			}
			if s.Kind() == types.MethodExpr {
				return true
			}
			base := unparen(sel.X)
			// receivers and freshly built locals are not interesting
			if id, ok := base.(*ast.Ident); ok {
				o := objOf(info, id)
				if sig := f.Obj.Type().(*types.Signature); sig.Recv() != nil && o == sig.Recv() {
					return true
				}
			}
			con := "deref " + short(w.Fset, sel)
			if why := nm.returnedNodeInvariant(f, base); why != "" {
				r.Ok(rule, f.Name(), con, w.Pos(sel.Pos()), why)
				return true
			}
			if nm.mayNil(f, base, base.Pos()) {
				why := ""
				if _, fld := fieldOf(info, base); fld != nil {
					why = nm.fieldWhy[fld]
				}
				r.Bad(rule, f.Name(), con, w.Pos(sel.Pos()),
					"'"+short(w.Fset, base)+"' may be nil (a sub-expression that failed to parse is stored as nil) and is dereferenced without a nil test: Parse panics instead of returning the syntax error"+
						map[bool]string{true: " [" + why + "]", false: ""}[why != ""])
			} else {
				r.Ok(rule, f.Name(), con, w.Pos(sel.Pos()), "non-nil by construction or guarded")
			}
			return true
		})
	}
	var names []string
	for fld := range nm.fieldNil {
		names = append(names, fld.Name())
	}
	sort.Strings(names)
	r.Note("R5: AST fields that may be nil after a failed sub-parse: %v", names)
	names = nil
	for fn := range nm.fnMayNil {
		names = append(names, fn.Name())
	}
	sort.Strings(names)
	r.Note("R5: parse functions that may return nil: %v", names)
}

// returnedNodeInvariant discharges `X.F` (F a field of node type T) when
//   - X is bound by a type switch / comma-ok assertion to *T from a value that
//     is the result of the Pratt entry (directly, through a parameter all of
//     whose call sites pass such a result, or through a field that is only
//     ever assigned the left operand handed to an infix function), and
//   - every registered parse function that returns a *T assigns F a non-nil
//     value at the top level of its body before returning.
//
// It returns the justification, or "" when the pattern does not apply.
func (nm *nilModel) returnedNodeInvariant(f *FuncInfo, e ast.Expr) string {
	info := f.Pkg.TypesInfo
	if f.Rel != "parser" {
		return ""
	}
	bx, fld := fieldOf(info, e)
	if fld == nil || !isASTRef(fld.Type()) {
		return ""
	}
	owner := fieldOwner(info, e)
	if owner == nil {
		return ""
	}
	if !nm.fromPratt(f, bx, 0) {
		return ""
	}
	// invariant over registered functions
	n := 0
	for _, reg := range nm.pm.regs {
		if reg.Fn == nil {
			continue
		}
		g := reg.Fn
		ginfo := g.Pkg.TypesInfo
		for _, ret := range returnsIn(g.Decl.Body) {
			if len(ret.Results) != 1 {
				continue
			}
			tv, ok := ginfo.Types[ret.Results[0]]
			if !ok || !types.Identical(tv.Type, owner) {
				continue
			}
			if nm.underEmptySplit(g, ret) {
				continue // `if len(parts) == 0 { return ... }` with parts := strings.Split(s, "."): never taken
			}
			o := objOf(ginfo, ret.Results[0])
			if o == nil {
				return ""
			}
			// a top-level assignment o.F = <non-nil> precedes the return, after the last assignment to o itself
			okAssign := false
			for _, st := range g.Decl.Body.List {
				if st.Pos() > ret.Pos() {
					break
				}
				if as, ok := st.(*ast.AssignStmt); ok && len(as.Lhs) == len(as.Rhs) {
					for i, l := range as.Lhs {
						if objOf(ginfo, l) == o {
							okAssign = false
						}
						b2, lf := fieldOf(ginfo, l)
						if lf == fld && objOf(ginfo, b2) == o && !nm.mayNil(g, as.Rhs[i], as.Rhs[i].Pos()) {
							okAssign = true
						}
					}
				}
				// re-assignments of o inside loops or conditionals before the field assignment are fine
			}
			if !okAssign {
				return ""
			}
			n++
		}
	}
	if n == 0 {
		return ""
	}
	return fmt.Sprintf("the node comes from the Pratt entry, and every registered parse function returning %s assigns %s before returning (%d return site(s))", typeStr(owner), fld.Name(), n)
}

// underEmptySplit: the statement sits in the body of `if len(x) == 0` (or `< 1`), x a local whose only assignment is
// strings.Split with a constant non-empty separator: Split then returns at least one element and the body never runs.
func (nm *nilModel) underEmptySplit(g *FuncInfo, at ast.Node) bool {
	info := g.Pkg.TypesInfo
	w := nm.w
	var child ast.Node = at
	for p := w.Parent(at); p != nil; child, p = p, w.Parent(p) {
		switch x := p.(type) {
		case *ast.FuncDecl, *ast.FuncLit:
			return false
		case *ast.IfStmt:
			if child != ast.Node(x.Body) || x.Init != nil {
				continue
			}
			be, ok := unparen(x.Cond).(*ast.BinaryExpr)
			if !ok {
				continue
			}
			c, ok := unparen(be.X).(*ast.CallExpr)
			if !ok || builtinName(info, c) != "len" || len(c.Args) != 1 {
				continue
			}
			k, isC := constInt(info, be.Y)
			if !isC || !((be.Op == token.EQL && k == 0) || (be.Op == token.LSS && k == 1) || (be.Op == token.LEQ && k == 0)) {
				continue
			}
			o := objOf(info, c.Args[0])
			if o == nil {
				continue
			}
			nDef, fromSplit := 0, false
			ast.Inspect(g.Decl.Body, func(n ast.Node) bool {
				switch s := n.(type) {
				case *ast.AssignStmt:
					for i, l := range s.Lhs {
						if objOf(info, l) != o {
							continue
						}
						nDef++
						if len(s.Lhs) == len(s.Rhs) {
							if call, isCall := unparen(s.Rhs[i]).(*ast.CallExpr); isCall && funcIs(calleeOf(info, call), "strings", "Split") && len(call.Args) == 2 {
								if sep, isStr := constString(info, call.Args[1]); isStr && sep != "" {
									fromSplit = true
								}
							}
						}
					}
				case *ast.ValueSpec:
					for _, nme := range s.Names {
						if info.Defs[nme] == o {
							nDef += 2 // declared separately: may still be the nil slice
						}
					}
				case *ast.UnaryExpr:
					if s.Op == token.AND && objOf(info, s.X) == o {
						nDef += 2
					}
				}
				return true
			})
			if nDef == 1 && fromSplit {
				return true
			}
		}
	}
	return false
}

// fromPratt: the expression denotes a node produced by the Pratt entry.
func (nm *nilModel) fromPratt(f *FuncInfo, e ast.Expr, depth int) bool {
	if depth > 12 || e == nil {
		return false
	}
	info := f.Pkg.TypesInfo
	w := nm.w
	e = unparen(e)
	if c, ok := e.(*ast.CallExpr); ok {
		return calleeOf(info, c) == nm.pm.pratt.Obj
	}
	if ta, ok := e.(*ast.TypeAssertExpr); ok {
		return nm.fromPratt(f, ta.X, depth+1)
	}
	if sel, ok := e.(*ast.SelectorExpr); ok {
		// a field that is only ever assigned the left operand of an infix function
		_, fld := fieldOf(info, sel)
		if fld == nil {
			return false
		}
		okAll, n := true, 0
		for _, g := range nm.funcs {
			ginfo := g.Pkg.TypesInfo
			ast.Inspect(g.Decl.Body, func(nd ast.Node) bool {
				var val ast.Expr
				switch x := nd.(type) {
				case *ast.KeyValueExpr:
					if k, _ := x.Key.(*ast.Ident); k != nil && ginfo.Uses[k] == types.Object(fld) {
						val = x.Value
					}
				case *ast.AssignStmt:
					for i, l := range x.Lhs {
						if _, lf := fieldOf(ginfo, l); lf == fld && i < len(x.Rhs) {
							val = x.Rhs[i]
						}
					}
				}
				if val != nil {
					n++
					pv, _ := objOf(ginfo, val).(*types.Var)
					isInfixParam := false
					for _, reg := range nm.pm.regs {
						if reg.Infix && reg.Fn != nil && reg.Fn.Obj == g.Obj {
							if sig := g.Obj.Type().(*types.Signature); sig.Params().Len() == 1 && sig.Params().At(0) == pv {
								isInfixParam = true
							}
						}
					}
					if !isInfixParam {
						okAll = false
					}
				}
				return true
			})
		}
		return okAll && n > 0 && nm.fromPratt(f, sel.X, depth+1)
	}
	o := objOf(info, e)
	if o == nil {
		return false
	}
	// type-switch variable
	if id, ok := e.(*ast.Ident); ok {
		if cc := implicitClause(info, w, id); cc != nil && cc.List != nil {
			if ts, ok := w.Parent(w.Parent(cc)).(*ast.TypeSwitchStmt); ok {
				if as, ok := ts.Assign.(*ast.AssignStmt); ok {
					if ta, ok := as.Rhs[0].(*ast.TypeAssertExpr); ok {
						return nm.fromPratt(f, ta.X, depth+1)
					}
				}
			}
		}
	}
	// parameter: all call sites pass a Pratt result
	sig := f.Obj.Type().(*types.Signature)
	for i := 0; i < sig.Params().Len(); i++ {
		if sig.Params().At(i) != o {
			continue
		}
		n, all := 0, true
		for _, g := range nm.funcs {
			for _, c := range callsIn(g.Decl.Body, false) {
				if calleeOf(g.Pkg.TypesInfo, c) != f.Obj || i >= len(c.Args) {
					continue
				}
				n++
				if !nm.fromPratt(g, c.Args[i], depth+1) {
					all = false
				}
			}
		}
		return all && n > 0
	}
	// local: single definition from a Pratt result / assertion of one
	var def ast.Expr
	nd := 0
	ast.Inspect(f.Decl.Body, func(n ast.Node) bool {
		if as, ok := n.(*ast.AssignStmt); ok {
			for i, l := range as.Lhs {
				if objOf(info, l) == o {
					nd++
					if len(as.Rhs) == len(as.Lhs) {
						def = as.Rhs[i]
					} else if len(as.Rhs) == 1 && i == 0 {
						def = as.Rhs[0]
					}
				}
			}
		}
		return true
	})
	if nd == 1 && def != nil {
		return nm.fromPratt(f, def, depth+1)
	}
	return false
}

// ---- definite assignment on paths ---------------------------------------------------

type nilPathsOf struct {
	paths []*pwPath
	ok    bool
}

// ctorPaths: the paths of a parse function with its small helpers walked in line (those that take
// or yield nodes or functions: a helper that parses "(condition) { block }" for two callers, a
// validator passed as a function value), loops taken zero times and once.
func (nm *nilModel) ctorPaths(fn *ssa.Function) *nilPathsOf {
	nm.pathsMu.Lock()
	defer nm.pathsMu.Unlock()
	if nm.pathsMemo == nil {
		nm.pathsMemo = map[*ssa.Function]*nilPathsOf{}
	}
	if v, ok := nm.pathsMemo[fn]; ok {
		return v
	}
	w := nm.w
	pm := nm.pm
	skip := map[*ssa.Function]bool{}
	for _, f := range []*FuncInfo{pm.advance, pm.expectPeek, pm.curIs, pm.peekIs, pm.pratt, pm.blockParse, pm.stmtParse} {
		if f != nil {
			if s := w.SSAFunc(f); s != nil {
				skip[s] = true
			}
		}
	}
	relevant := func(sig *types.Signature) bool {
		for _, tup := range []*types.Tuple{sig.Params(), sig.Results()} {
			for i := 0; i < tup.Len(); i++ {
				t := tup.At(i).Type()
				if isASTRef(t) {
					return true
				}
				if _, isFn := t.Underlying().(*types.Signature); isFn {
					return true
				}
			}
		}
		return false
	}
	pw := &pathWalker{unroll1: true, maxPaths: 4000, inline: func(caller, callee *ssa.Function) bool {
		if pkgOf(callee) != pkgOf(fn) || skip[callee] || funcHasLoop(callee) {
			return false
		}
		// registered parse functions are summarised (may return nil or not), not walked
		if o, ok := fnObject(callee).(*types.Func); ok {
			for _, reg := range pm.regs {
				if reg.Fn != nil && reg.Fn.Obj == o {
					return false
				}
			}
		}
		return relevant(callee.Signature)
	}}
	pw.walk(fn)
	res := &nilPathsOf{paths: pw.paths, ok: !pw.overflow && len(pw.paths) > 0}
	nm.pathsMemo[fn] = res
	return res
}

// nonNilOnPath: the value is known not to be nil where the path ends.
func (nm *nilModel) nonNilOnPath(p *pwPath, v ssa.Value) bool {
	v = p.resolve(v)
	if p.knownNonNil(v) {
		return true
	}
	if c, ok := v.(*ssa.Call); ok {
		if cal := c.Call.StaticCallee(); cal != nil && inModule(cal) {
			if o, ok := fnObject(cal).(*types.Func); ok && nm.w.FuncOf(o) != nil && !nm.fnMayNil[o] && cal.Signature.Results().Len() == 1 {
				return true
			}
		}
	}
	// a validator said yes: `if !valid(v) { fail }` was passed
	for _, d := range p.decisions {
		c, ok := d.cond.(*ssa.Call)
		if !ok || !d.truth || len(c.Call.Args) == 0 {
			continue
		}
		cal := c.Call.StaticCallee()
		if cal == nil {
			continue
		}
		if o, ok := fnObject(cal).(*types.Func); ok && nm.validators[o] {
			a := p.resolve(c.Call.Args[len(c.Call.Args)-1])
			if a == v || p.resolve(stripIface(a)) == v {
				return true
			}
		}
	}
	return false
}

// assignedOnPaths: on every path of f that returns the node it built (of the struct type st), the
// last value stored into the field is known not to be nil.
func (nm *nilModel) assignedOnPaths(f *FuncInfo, st types.Type, fld *types.Var) bool {
	w := nm.w
	fn := w.SSAFunc(f)
	str, ok := st.Underlying().(*types.Struct)
	if fn == nil || !ok {
		return false
	}
	idx := fieldIndex(str, fld)
	if idx < 0 {
		return false
	}
	var alloc *ssa.Alloc
	n := 0
	for _, b := range fn.Blocks {
		for _, ins := range b.Instrs {
			if a, ok := ins.(*ssa.Alloc); ok {
				if pt, ok := a.Type().(*types.Pointer); ok && types.Identical(pt.Elem(), st) {
					alloc = a
					n++
				}
			}
		}
	}
	if n != 1 {
		return false
	}
	cp := nm.ctorPaths(fn)
	if !cp.ok {
		return false
	}
	nRet := 0
	for _, p := range cp.paths {
		if p.end == "panic" {
			continue
		}
		if p.end != "return" || len(p.results) != 1 {
			return false
		}
		res := p.resolve(stripIface(p.resolve(p.results[0])))
		if res != ssa.Value(alloc) {
			if isNilConst(res) || isNilConst(p.resolve(p.results[0])) {
				continue // a failure return
			}
			return false
		}
		nRet++
		v, ok := p.fieldOfObj(alloc, idx)
		if !ok || !nm.nonNilOnPath(p, v) {
			return false
		}
	}
	return nRet > 0
}
