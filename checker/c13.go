package main

import (
	"fmt"
	"go/ast"
	"go/token"
	"go/types"
	"strings"

	"golang.org/x/tools/go/ssa"
)

func init() {
	register("C13", checkC13, "determinism of application-supplied helpers and data; the order in which reflect visits a Go map in a for loop (licensed by the statement)")
}

func checkC13(r *Run) {
	r.Rule("R1", "the parsed tree is read-only during execution: no store into an object of a type declared in package ast from any function reachable from Template.Exec or a registered helper", 1)
	r.Rule("R2", "no order-sensitive iteration over a Go map on the render path: every range over a map is a key-wise copy of the unmodified key/value; reflect.MapKeys/MapRange only in the for evaluator", 3)
	r.Rule("R3", "no ambient nondeterminism on the render path (clock, random numbers, goroutines, select, pid); os.Getenv of the env helpers is the licensed positive witness of the matcher", 1)
	r.Rule("R4", "cache: every cache read/write is keyed by the unmodified input parameter; cached and uncached paths build the template by the same constructor call on that parameter; only an error-free template is stored; Clone copies Input and program only", 1)
	r.Rule("R5", "per-execution state: Exec builds its evaluator as a fresh composite literal; no function on the render path stores to a package-level variable except the cache inside Parse", 1)
	r.Rule("R6", "Template.program is written only by Template.Parse, only after the nil test and only with an error-free parse result", 1)
	effectRuleAST(r, "R1")
	mapRangeRule(r, "R2")
	ambientRule(r, "R3")
	cacheRule(r, "R4")
	globalStoreRule(r, "R5")
	programFieldRule(r, "R6")
}

// ---- R1: effect analysis -----------------------------------------------------

func effectRuleAST(r *Run, rule string) {
	w := r.W
	reach := w.execReachable()
	n := 0
	for _, fn := range sortedFuncs(reach) {
		rel := fnRel(fn)
		if rel == "parser" || rel == "lexer" {
			// reachable only through Template.Parse, where they build a NEW tree
			continue
		}
		if fn.Blocks == nil {
			continue
		}
		n++
		r.Analysed(ssaName(fn))
		for _, b := range fn.Blocks {
			for _, ins := range b.Instrs {
				var base, what string
				switch x := ins.(type) {
				case *ssa.Store:
					base = addrBase(x.Addr, 0)
					what = "store"
				case *ssa.MapUpdate:
					base = addrBase(x.Map, 0)
					what = "map update"
				case ssa.CallInstruction:
					// in-place mutators applied to a container loaded from the tree
					pkg, name := staticCalleeName(x)
					if (pkg == "sort" || pkg == "slices") && !stdReadOnly(pkg, name) {
						for _, a := range x.Common().Args {
							if !isMutableContainer(a.Type()) {
								continue // a string or a number handed over by value
							}
							if bb := addrBase(a, 0); strings.HasPrefix(bb, "ast:") {
								base, what = bb, "call of "+pkg+"."+name+" on"
							}
						}
					}
					if b, ok := x.Common().Value.(*ssa.Builtin); ok && (b.Name() == "copy" || b.Name() == "clear" || b.Name() == "delete") {
						if len(x.Common().Args) > 0 {
							if bb := addrBase(x.Common().Args[0], 0); strings.HasPrefix(bb, "ast:") {
								base, what = bb, "builtin "+b.Name()+" on"
							}
						}
					}
				}
				if strings.HasPrefix(base, "ast:") {
					r.Bad(rule, ssaName(fn), what+" "+strings.TrimPrefix(base, "ast:"), w.Pos(ins.Pos()),
						"a function reachable from Template.Exec writes into the parsed program, which is shared by every Exec, Clone and cache hit")
				}
			}
		}
	}
	if n > 0 {
		r.Ok(rule, "-", fmt.Sprintf("%d reachable function(s) scanned", n), "-", "no store/map update/in-place mutator whose address derives from an ast-declared object")
	}
	// the parser writes only nodes created during the same Parse call:
	// every field store in package parser whose base is an AST object must be
	// to a node allocated in the same function, a node returned by a parse
	// function in the same call tree, or (assignCallee) a just-parsed child.
	for _, f := range w.Funcs("parser") {
		fn := w.SSAFunc(f)
		if fn == nil {
			continue
		}
		r.Analysed(f.Name())
	}
}

// ---- R2: map ranges ----------------------------------------------------------

func (w *World) declFromSSA(fn *ssa.Function) *FuncInfo {
	for fn != nil && fn.Parent() != nil {
		fn = fn.Parent()
	}
	if fn == nil {
		return nil
	}
	if o, ok := fn.Object().(*types.Func); ok {
		return w.FuncOf(o)
	}
	return nil
}

func mapRangeRule(r *Run, rule string) {
	w := r.W
	reach := w.execReachable()
	done := map[*FuncInfo]bool{}
	forEval := w.evalMethod("ForExpression")
	for _, fn := range sortedFuncs(reach) {
		f := w.declFromSSA(fn)
		if f == nil || done[f] {
			continue
		}
		done[f] = true
		if f.Rel == "parser" || f.Rel == "lexer" {
			continue
		}
		info := f.Pkg.TypesInfo
		ast.Inspect(f.Decl.Body, func(n ast.Node) bool {
			switch x := n.(type) {
			case *ast.RangeStmt:
				tv, ok := info.Types[x.X]
				if !ok {
					return true
				}
				if _, isMap := tv.Type.Underlying().(*types.Map); !isMap {
					return true
				}
				con := "range " + short(w.Fset, x.X)
				if why := keyWiseCopy(info, x); why == "" {
					r.Ok(rule, f.Name(), con, w.Pos(x.Pos()), "key-wise copy of the unmodified key and value")
				} else {
					r.Bad(rule, f.Name(), con, w.Pos(x.Pos()),
						"iteration over a Go map on the render path whose body depends on the visiting order: "+why)
				}
			case *ast.CallExpr:
				cal := calleeOf(info, x)
				if methodIs(cal, "reflect", "Value", "MapKeys") || methodIs(cal, "reflect", "Value", "MapRange") {
					con := "reflect " + cal.Name() + " " + short(w.Fset, x)
					if forEval != nil && f.Obj == forEval.Obj {
						r.Ok(rule, f.Name(), con, w.Pos(x.Pos()), "the for loop over a Go map is the variation the property licenses")
					} else {
						r.Bad(rule, f.Name(), con, w.Pos(x.Pos()), "map keys are enumerated (in random order) outside the for evaluator")
					}
				}
			}
			return true
		})
	}
}

// keyWiseCopy returns "" when the range body is a single (optionally guarded)
// insertion of the unmodified key and value into another map or context.
func keyWiseCopy(info *types.Info, rs *ast.RangeStmt) string {
	k, v := objOf(info, rs.Key), types.Object(nil)
	if rs.Value != nil {
		v = objOf(info, rs.Value)
	}
	if k == nil || v == nil {
		return "key or value not bound"
	}
	body := rs.Body.List
	// leading `if <test of the key alone> { continue }` guards: entries are skipped one by one,
	// whatever the visiting order
	keyOnlyTest := func(e ast.Expr) bool {
		e = unparen(e)
		if u, ok := e.(*ast.UnaryExpr); ok && u.Op == token.NOT {
			e = unparen(u.X)
		}
		c, ok := e.(*ast.CallExpr)
		if !ok {
			return false
		}
		if len(c.Args) == 1 && objOf(info, c.Args[0]) == k {
			if cal := calleeOf(info, c); cal != nil {
				return cal.Name() == "Has"
			}
		}
		// a predicate value handed to the function (func(key) bool, or func(ctx, key) bool: "is this name known
		// to that context"): the key once among its arguments, the others plain variables that are not the value
		if calleeOf(info, c) != nil {
			return false
		}
		tv, ok := info.Types[c.Fun]
		if !ok {
			return false
		}
		sig, ok := tv.Type.Underlying().(*types.Signature)
		if !ok || sig.Results().Len() != 1 || !isBasicKind(sig.Results().At(0).Type(), types.Bool) || len(c.Args) == 0 || len(c.Args) > 2 {
			return false
		}
		nKey := 0
		for _, a := range c.Args {
			o := objOf(info, a)
			switch {
			case o == nil:
				return false
			case o == k:
				nKey++
			case v != nil && o == v:
				return false
			}
		}
		return nKey == 1
	}
	for len(body) > 1 {
		ifs, ok := body[0].(*ast.IfStmt)
		if !ok || ifs.Init != nil || ifs.Else != nil || len(ifs.Body.List) != 1 {
			break
		}
		br, ok := ifs.Body.List[0].(*ast.BranchStmt)
		if !ok || br.Tok != token.CONTINUE || br.Label != nil {
			break
		}
		okGuard := true
		for _, d := range disjuncts(ifs.Cond) {
			if !keyOnlyTest(d) {
				okGuard = false
			}
		}
		if !okGuard {
			break
		}
		body = body[1:]
	}
	if len(body) != 1 {
		return fmt.Sprintf("body has %d statements, expected a single insertion", len(body))
	}
	st := body[0]
	if ifs, ok := st.(*ast.IfStmt); ok {
		// guard: conjunction of !X.Has(k) tests only
		if ifs.Init != nil || ifs.Else != nil || len(ifs.Body.List) != 1 {
			return "guard has an unexpected shape"
		}
		for _, cj := range conjuncts(ifs.Cond) {
			u, ok := unparen(cj).(*ast.UnaryExpr)
			if !ok || u.Op != token.NOT || !keyOnlyTest(u.X) {
				return "guard is not a conjunction of !Has(key) tests (or of a predicate of the key alone)"
			}
		}
		st = ifs.Body.List[0]
	}
	switch s := st.(type) {
	case *ast.ExprStmt:
		c, ok := s.X.(*ast.CallExpr)
		if !ok || len(c.Args) != 2 {
			return "not an insertion"
		}
		cal := calleeOf(info, c)
		if cal == nil || cal.Name() != "Set" {
			return "not an insertion"
		}
		if objOf(info, c.Args[0]) != k || objOf(info, c.Args[1]) != v {
			return "inserts something other than the unmodified key and value"
		}
		return ""
	case *ast.AssignStmt:
		if len(s.Lhs) != 1 || len(s.Rhs) != 1 || s.Tok != token.ASSIGN {
			return "not an insertion"
		}
		ix, ok := s.Lhs[0].(*ast.IndexExpr)
		if !ok {
			return "not an insertion"
		}
		if objOf(info, ix.Index) != k || objOf(info, s.Rhs[0]) != v {
			return "inserts something other than the unmodified key and value"
		}
		return ""
	}
	return "not an insertion"
}

// ---- R3: ambient nondeterminism ----------------------------------------------

var ambientDeny = map[string]string{
	"time.Now": "wall clock", "time.Since": "wall clock", "time.Until": "wall clock",
	"os.Getpid": "process id", "os.Getppid": "process id", "os.Hostname": "host name",
	"runtime.NumGoroutine": "scheduler state",
}

func ambientRule(r *Run, rule string) {
	w := r.W
	reach := w.execReachable()
	calls := 0
	for _, fn := range sortedFuncs(reach) {
		rel := fnRel(fn)
		if fn.Blocks == nil {
			continue
		}
		for _, b := range fn.Blocks {
			for _, ins := range b.Instrs {
				switch x := ins.(type) {
				case *ssa.Go:
					r.Bad(rule, ssaName(fn), "go statement", w.Pos(x.Pos()), "the render path starts a goroutine: output may depend on scheduling")
				case *ssa.Select:
					r.Bad(rule, ssaName(fn), "select", w.Pos(x.Pos()), "select on the render path: output may depend on scheduling")
				case ssa.CallInstruction:
					calls++
					pkg, name := staticCalleeName(x)
					key := pkg + "." + name
					if why, bad := ambientDeny[key]; bad {
						r.Bad(rule, ssaName(fn), "call "+key, w.Pos(x.Pos()), "ambient input on the render path ("+why+")")
					} else if pkg == "math/rand" || pkg == "math/rand/v2" || pkg == "crypto/rand" {
						r.Bad(rule, ssaName(fn), "call "+key, w.Pos(x.Pos()), "random numbers on the render path")
					} else if key == "os.Getenv" || key == "os.LookupEnv" {
						if rel == "helpers/env" {
							r.Ok(rule, ssaName(fn), "call "+key, w.Pos(x.Pos()), "licensed: the env helpers exist to read the environment (also the matcher's positive witness)")
						} else {
							r.Bad(rule, ssaName(fn), "call "+key, w.Pos(x.Pos()), "environment read on the render path outside the env helpers")
						}
					}
				}
			}
		}
	}
	r.Note("R3 scanned %d call instructions in %d reachable functions", calls, len(reach))
}

// ---- R4: cache ----------------------------------------------------------------

func (w *World) cacheVar() *types.Var {
	v, _, _ := w.cacheVars()
	return v
}

// cacheVars: the map[string]*Template of the root package that caches parsed templates -- a package-level
// variable, or the field of an unexported struct type of the package of which a package-level variable
// holds (a pointer to) the one instance -- together with that holder variable and struct type (nil for a plain variable).
func (w *World) cacheVars() (cache *types.Var, holder *types.Var, holderT *types.Named) {
	isCacheMap := func(t types.Type) bool {
		mt, ok := t.Underlying().(*types.Map)
		return ok && namedIs(mt.Elem(), modPath, "Template")
	}
	sc := w.Pkgs[""].Types.Scope()
	for _, n := range sc.Names() {
		if v, ok := sc.Lookup(n).(*types.Var); ok && isCacheMap(v.Type()) {
			return v, nil, nil
		}
	}
	for _, n := range sc.Names() {
		v, ok := sc.Lookup(n).(*types.Var)
		if !ok {
			continue
		}
		t := v.Type()
		if pt, isPtr := t.(*types.Pointer); isPtr {
			t = pt.Elem()
		}
		nt, isNamed := t.(*types.Named)
		if !isNamed || nt.Obj().Pkg() != w.Pkgs[""].Types || nt.Obj().Exported() {
			continue
		}
		st, isStruct := nt.Underlying().(*types.Struct)
		if !isStruct {
			continue
		}
		for i := 0; i < st.NumFields(); i++ {
			if isCacheMap(st.Field(i).Type()) {
				return st.Field(i), v, nt
			}
		}
	}
	return nil, nil, nil
}

// varOf: the variable an identifier or a field selector denotes.
func varOf(info *types.Info, e ast.Expr) types.Object {
	if _, fld := fieldOf(info, e); fld != nil {
		return fld
	}
	return objOf(info, e)
}

func cacheRule(r *Run, rule string) {
	w := r.W
	info := w.Pkgs[""].TypesInfo
	cv := w.cacheVar()
	if cv == nil {
		r.Lost(rule, "package-level template cache map")
		return
	}
	newTpl := w.Func("", "NewTemplate")
	for _, f := range w.Funcs("") {
		var uses []*ast.IndexExpr
		inspectBody(f.Decl.Body, false, func(n ast.Node) bool {
			if ix, ok := n.(*ast.IndexExpr); ok && varOf(info, ix.X) == types.Object(cv) {
				uses = append(uses, ix)
			}
			return true
		})
		if len(uses) == 0 {
			continue
		}
		sig := f.Obj.Type().(*types.Signature)
		// the string parameter that is the cache key
		var keyParam *types.Var
		if sig.Params().Len() > 0 {
			keyParam = sig.Params().At(0)
		}
		reassigned := false
		inspectBody(f.Decl.Body, false, func(n ast.Node) bool {
			if as, ok := n.(*ast.AssignStmt); ok {
				for _, l := range as.Lhs {
					if objOf(info, l) == keyParam && keyParam != nil {
						reassigned = true
					}
				}
			}
			return true
		})
		for _, ix := range uses {
			con := "cache[" + short(w.Fset, ix.Index) + "]"
			if keyParam != nil && objOf(info, ix.Index) == keyParam && !reassigned {
				r.Ok(rule, f.Name(), con, w.Pos(ix.Pos()), "keyed by the unmodified parameter")
			} else {
				r.Bad(rule, f.Name(), con, w.Pos(ix.Pos()), "the template cache must be keyed by the function's unmodified input parameter")
			}
		}
		if newTpl == nil {
			continue
		}
		// constructor calls in the caching function use the same parameter
		ncons := 0
		for _, c := range callsIn(f.Decl.Body, false) {
			if calleeOf(info, c) == newTpl.Obj {
				ncons++
				if len(c.Args) == 1 && objOf(info, c.Args[0]) == keyParam && !reassigned {
					r.Ok(rule, f.Name(), "NewTemplate("+short(w.Fset, c.Args[0])+")", w.Pos(c.Pos()), "template built from the same text that keys the cache")
				} else {
					r.Bad(rule, f.Name(), "NewTemplate("+short(w.Fset, c.Args[0])+")", w.Pos(c.Pos()), "the template must be built from exactly the text that keys the cache")
				}
			}
		}
		// the store must be dominated by the error test of the constructor
		inspectBody(f.Decl.Body, false, func(n ast.Node) bool {
			as, ok := n.(*ast.AssignStmt)
			if !ok {
				return true
			}
			for _, l := range as.Lhs {
				ix, ok := l.(*ast.IndexExpr)
				if !ok || varOf(info, ix.X) != types.Object(cv) {
					continue
				}
				// a template the caller supplies (CacheSet and what it delegates to): no parse of this function's to check
				if len(as.Lhs) == len(as.Rhs) {
					isParam := false
					for li, l2 := range as.Lhs {
						if l2 != l {
							continue
						}
						if o := objOf(info, as.Rhs[li]); o != nil {
							for pi := 0; pi < sig.Params().Len(); pi++ {
								if sig.Params().At(pi) == o {
									isParam = true
								}
							}
						}
					}
					if isParam && len(callsTo(info, f.Decl.Body, newTpl)) == 0 {
						r.Ok(rule, f.Name(), "store "+short(w.Fset, as), w.Pos(as.Pos()), "the template is the caller's (a parameter): stored as given")
						continue
					}
				}
				if storeAfterErrReturn(w, info, f, as) {
					r.Ok(rule, f.Name(), "store "+short(w.Fset, as), w.Pos(as.Pos()), "preceded by 'if err != nil { return }' on the constructor's error")
				} else {
					r.Bad(rule, f.Name(), "store "+short(w.Fset, as), w.Pos(as.Pos()), "a template is put into the cache before its parse error has been checked: a failed parse would be served from the cache")
				}
			}
			return true
		})
	}
	// Clone
	if tt := w.NamedType("", "Template"); tt != nil {
		for _, f := range w.Funcs("") {
			if !isMethodOf(f, tt) || f.Decl.Name.Name != "Clone" {
				continue
			}
			// on the SSA form: every return yields a fresh Template whose fields are the receiver's, one to one
			// (field by field, or by copying the whole struct)
			ok, nlit := false, 1
			if fn := w.SSAFunc(f); fn != nil && len(fn.Params) == 1 {
				paths, complete := walkPaths(fn, nil, nil)
				ok = complete && len(paths) > 0
				st, _ := tt.Underlying().(*types.Struct)
				for _, p := range paths {
					if p.end != "return" || len(p.results) != 1 || st == nil {
						ok = false
						continue
					}
					al, isAlloc := p.resolve(p.results[0]).(*ssa.Alloc)
					if !isAlloc {
						ok = false
						continue
					}
					isRecvLoad := func(v ssa.Value, field int) bool {
						ld, isLd := p.resolve(v).(*ssa.UnOp)
						if !isLd || ld.Op != token.MUL {
							return false
						}
						if field < 0 {
							return p.resolve(ld.X) == ssa.Value(fn.Params[0])
						}
						fa, isFA := ld.X.(*ssa.FieldAddr)
						return isFA && fa.Field == field && p.resolve(fa.X) == ssa.Value(fn.Params[0])
					}
					if whole, has := p.stores[objKey(al)]; has && isRecvLoad(whole, -1) {
						// *t copied as a whole; no field may be overwritten afterwards
						for i := 0; i < st.NumFields(); i++ {
							if _, over := p.fieldOfObj(al, i); over {
								ok = false
							}
						}
						continue
					}
					for i := 0; i < st.NumFields(); i++ {
						fv, has := p.fieldOfObj(al, i)
						if !has || !isRecvLoad(fv, i) {
							ok = false
						}
					}
				}
			}
			if ok && nlit == 1 {
				r.Ok(rule, f.Name(), "clone literal", w.Pos(f.Decl.Pos()), "copies the receiver's fields one to one")
			} else {
				r.Bad(rule, f.Name(), "clone literal", w.Pos(f.Decl.Pos()), "Clone must copy Input and program of the receiver unchanged")
			}
		}
	}
}

// storeAfterErrReturn: in the statement list containing st, an earlier
// statement is `if err != nil { return ... }` where err is the error result of
// the latest constructor call.
func storeAfterErrReturn(w *World, info *types.Info, f *FuncInfo, st ast.Stmt) bool {
	// the error variable of the latest two-result call that precedes the store in this function
	var errObj types.Object
	inspectBody(f.Decl.Body, false, func(n ast.Node) bool {
		if as, ok := n.(*ast.AssignStmt); ok && as.Pos() < st.Pos() && len(as.Rhs) == 1 && len(as.Lhs) == 2 {
			if _, isCall := as.Rhs[0].(*ast.CallExpr); isCall {
				if o := objOf(info, as.Lhs[1]); o != nil && isErrorType(o.Type()) {
					errObj = o
				}
			}
		}
		return true
	})
	if errObj == nil {
		return false
	}
	return w.dominatedBy(info, st, []types.Object{errObj}, nilFact(info, func(e ast.Expr) bool { return objOf(info, e) == errObj }, true))
}

// ---- R5: globals -----------------------------------------------------------------

func globalStoreRule(r *Run, rule string) {
	w := r.W
	reach := w.execReachable()
	cv := w.cacheVar()
	for _, fn := range sortedFuncs(reach) {
		if fn.Blocks == nil {
			continue
		}
		for _, b := range fn.Blocks {
			for _, ins := range b.Instrs {
				var base string
				switch x := ins.(type) {
				case *ssa.Store:
					base = addrBase(x.Addr, 0)
				case *ssa.MapUpdate:
					base = addrBase(x.Map, 0)
				case ssa.CallInstruction:
					// a reference to package-level state handed to a call
					// (e.g. a package-level sync.Map or memo table)
					cc := x.Common()
					if _, isBuiltin := cc.Value.(*ssa.Builtin); isBuiltin {
						break
					}
					pkg, name := staticCalleeName(x)
					if pkg == "sync" && (strings.HasSuffix(name, ".Lock") || strings.HasSuffix(name, ".Unlock") || strings.HasSuffix(name, ".RLock") || strings.HasSuffix(name, ".RUnlock")) {
						break
					}
					args := cc.Args
					if cc.IsInvoke() {
						args = append([]ssa.Value{cc.Value}, args...)
					}
					if stdReadOnly(pkg, name) {
						break // the standard library's searches and comparisons only read what they are handed
					}
					// the template cache handed to a method of its own type: what the method does with it is judged where
					// it does it (every access under the cache's mutex, C14.R2; keyed by the input, C13.R4)
					if _, holder, holderT := w.cacheVars(); holderT != nil && holder != nil {
						if g := cc.StaticCallee(); g != nil && g.Signature.Recv() != nil {
							rt := g.Signature.Recv().Type()
							if pt, isPtr := rt.(*types.Pointer); isPtr {
								rt = pt.Elem()
							}
							if types.Identical(rt, holderT) && len(args) > 0 && addrBase(args[0], 0) == "global:plush."+holder.Name() {
								args = args[1:]
							}
						}
					}
					if pkg == "maps" && name == "Copy" && len(args) == 2 {
						args = args[:1] // only the destination is written
					}
					for _, a := range args {
						switch a.Type().Underlying().(type) {
						case *types.Pointer, *types.Map, *types.Slice, *types.Chan:
							if gb := addrBase(a, 0); strings.HasPrefix(gb, "global:") {
								r.Bad(rule, ssaName(fn), "package-level "+strings.TrimPrefix(gb, "global:")+" passed to "+pkg+"."+name, w.Pos(ins.Pos()),
									"a function on the render path hands a reference to package-level state to a call that may modify it: executions are no longer independent")
							}
						}
					}
				}
				if !strings.HasPrefix(base, "global:") {
					continue
				}
				name := strings.TrimPrefix(base, "global:")
				// the template cache: written by the package's own (non-evaluator) functions; that every
				// access happens under the cache mutex is C14.R2, which looks at every function that touches it
				if cv != nil && name == "plush."+cv.Name() && fnRel(fn) == "" && fn.Signature.Recv() == nil {
					r.Ok(rule, ssaName(fn), "store to "+name, w.Pos(ins.Pos()), "the cache, written under its lock (C14.R2)")
					continue
				}
				if fn.Name() == "init" || strings.HasPrefix(fn.Name(), "init#") {
					continue
				}
				r.Bad(rule, ssaName(fn), "store to package-level "+name, w.Pos(ins.Pos()), "a function on the render path writes package-level state: executions are no longer independent")
			}
		}
	}
	// Exec builds its evaluator as a fresh composite literal
	exec := w.Func("", "Template.Exec")
	ct := w.compilerType()
	if exec == nil || ct == nil {
		r.Lost(rule, "Template.Exec / evaluator type")
		return
	}
	info := w.Pkgs[""].TypesInfo
	isEvalLit := func(n ast.Node) bool {
		cl, ok := n.(*ast.CompositeLit)
		if !ok {
			return false
		}
		nt, ok := info.Types[cl].Type.(*types.Named)
		return ok && nt.Obj() == ct.Obj()
	}
	// constructors: functions every return of which yields a fresh evaluator literal (or another constructor's result)
	ctors := map[*types.Func]bool{}
	for changed := true; changed; {
		changed = false
		for _, f := range w.Funcs("") {
			if ctors[f.Obj] || f.Obj == exec.Obj {
				continue
			}
			sig := f.Obj.Type().(*types.Signature)
			if sig.Results().Len() != 1 {
				continue
			}
			if nt, ok := deref(sig.Results().At(0).Type()).(*types.Named); !ok || nt.Obj() != ct.Obj() {
				continue
			}
			rets := returnsIn(f.Decl.Body)
			all := len(rets) > 0
			for _, ret := range rets {
				if len(ret.Results) != 1 {
					all = false
					continue
				}
				e := unparen(ret.Results[0])
				if u, ok := e.(*ast.UnaryExpr); ok && u.Op == token.AND {
					e = unparen(u.X)
				}
				if isEvalLit(e) {
					continue
				}
				if c, ok := e.(*ast.CallExpr); ok && ctors[calleeOf(info, c)] {
					continue
				}
				all = false
			}
			if all {
				ctors[f.Obj] = true
				changed = true
			}
		}
	}
	nlit := 0
	inspectBody(exec.Decl.Body, false, func(n ast.Node) bool {
		if isEvalLit(n) {
			nlit++
		}
		if c, ok := n.(*ast.CallExpr); ok && ctors[calleeOf(info, c)] {
			nlit++
		}
		return true
	})
	// the evaluator type is constructed nowhere else, and never stored in a field or global
	other := 0
	for _, f := range w.Funcs("") {
		if f == exec || f.Obj == exec.Obj {
			continue
		}
		inspectBody(f.Decl.Body, false, func(n ast.Node) bool {
			if isEvalLit(n) {
				if ctors[f.Obj] {
					r.Ok(rule, f.Name(), "evaluator constructor", w.Pos(n.Pos()), "returns a fresh evaluator; its call sites are checked")
					return true
				}
				other++
				r.Bad(rule, f.Name(), "evaluator constructed outside Exec", w.Pos(n.Pos()), "the evaluator must be created per execution by Template.Exec only")
			}
			if c, ok := n.(*ast.CallExpr); ok && ctors[calleeOf(info, c)] && !ctors[f.Obj] {
				other++
				r.Bad(rule, f.Name(), "evaluator constructed outside Exec", w.Pos(n.Pos()), "the evaluator must be created per execution by Template.Exec only")
			}
			return true
		})
	}
	for _, pv := range w.Pkgs[""].Types.Scope().Names() {
		if v, ok := w.Pkgs[""].Types.Scope().Lookup(pv).(*types.Var); ok {
			if nt, ok := deref(v.Type()).(*types.Named); ok && nt.Obj() == ct.Obj() {
				r.Bad(rule, "plush."+pv, "package-level evaluator", w.Pos(v.Pos()), "a package-level evaluator is shared between executions")
			}
		}
	}
	// fields of Template must not hold an evaluator
	if tt := w.NamedType("", "Template"); tt != nil {
		st := tt.Underlying().(*types.Struct)
		for i := 0; i < st.NumFields(); i++ {
			if nt, ok := deref(st.Field(i).Type()).(*types.Named); ok && nt.Obj() == ct.Obj() {
				r.Bad(rule, "plush.Template", "field "+st.Field(i).Name(), w.Pos(st.Field(i).Pos()), "an evaluator stored in the template is shared between executions")
			}
		}
	}
	if nlit == 1 {
		r.Ok(rule, exec.Name(), "fresh evaluator literal", w.Pos(exec.Decl.Pos()), "one composite literal per Exec")
	} else {
		r.Bad(rule, exec.Name(), fmt.Sprintf("%d evaluator literals", nlit), w.Pos(exec.Decl.Pos()), "Exec must build exactly one fresh evaluator")
	}
}

// ---- R6: Template.program ------------------------------------------------------------

func programFieldRule(r *Run, rule string) {
	w := r.W
	tt := w.NamedType("", "Template")
	if tt == nil {
		r.Lost(rule, "Template type")
		return
	}
	var progField *types.Var
	st := tt.Underlying().(*types.Struct)
	for i := 0; i < st.NumFields(); i++ {
		if namedIs(st.Field(i).Type(), astPath, "Program") {
			progField = st.Field(i)
		}
	}
	if progField == nil {
		r.Lost(rule, "Template field of type *ast.Program")
		return
	}
	info := w.Pkgs[""].TypesInfo
	for _, f := range w.Funcs("") {
		inspectBody(f.Decl.Body, false, func(n ast.Node) bool {
			as, ok := n.(*ast.AssignStmt)
			if !ok {
				return true
			}
			for _, l := range as.Lhs {
				_, fld := fieldOf(info, l)
				if fld != progField {
					continue
				}
				con := "store " + short(w.Fset, as)
				// must be in a method of Template, after `if t.program != nil { return }`
				// and after `if err != nil { return }`
				okNil, okErr := false, false
				if isMethodOf(f, tt) {
					okNil = w.dominatedBy(info, as, nil, nilFact(info, func(e ast.Expr) bool { _, fl := fieldOf(info, e); return fl == progField }, true))
					var errObjs []types.Object
					inspectBody(f.Decl.Body, false, func(n ast.Node) bool {
						if a2, ok := n.(*ast.AssignStmt); ok && a2.Pos() < as.Pos() && len(a2.Rhs) == 1 && len(a2.Lhs) == 2 {
							if o := objOf(info, a2.Lhs[1]); o != nil && isErrorType(o.Type()) {
								errObjs = append(errObjs, o)
							}
						}
						return true
					})
					if len(errObjs) > 0 {
						eo := errObjs[len(errObjs)-1]
						okErr = w.dominatedBy(info, as, []types.Object{eo}, nilFact(info, func(e ast.Expr) bool { return objOf(info, e) == eo }, true))
					}
				}
				if okNil && okErr {
					r.Ok(rule, f.Name(), con, w.Pos(as.Pos()), "after the nil test and the parse-error test")
				} else {
					r.Bad(rule, f.Name(), con, w.Pos(as.Pos()),
						"Template.program may be assigned only by a Template method after 'if t.program != nil { return }' and after the parse error was checked")
				}
			}
			return true
		})
	}
}

// isMutableContainer: a value through which the callee could write to what the caller sees.
func isMutableContainer(t types.Type) bool {
	switch t.Underlying().(type) {
	case *types.Pointer, *types.Map, *types.Slice, *types.Chan, *types.Interface, *types.Signature, *types.Struct, *types.Array:
		return true
	}
	return false
}

// stdReadOnly: functions of the standard library that only read the containers they are handed
// (searches, comparisons, measures, copies into a NEW container).
func stdReadOnly(pkg, name string) bool {
	switch pkg {
	case "slices":
		switch name {
		case "Contains", "ContainsFunc", "Index", "IndexFunc", "Equal", "EqualFunc", "Compare", "CompareFunc",
			"BinarySearch", "BinarySearchFunc", "IsSorted", "IsSortedFunc", "Max", "MaxFunc", "Min", "MinFunc", "Clone", "Concat":
			return true
		}
	case "sort":
		switch name {
		case "Search", "SearchInts", "SearchStrings", "SearchFloat64s", "IsSorted", "SliceIsSorted", "StringsAreSorted", "IntsAreSorted", "Float64sAreSorted":
			return true
		}
	case "maps":
		switch name {
		case "Clone", "Equal", "EqualFunc", "Keys", "Values", "All":
			return true
		}
	case "strings", "unicode/utf8", "unicode", "strconv":
		// package functions (methods of Builder, Reader, ... write to their receiver; Append* / Encode* write to their first operand)
		return !strings.HasPrefix(name, "(") && !strings.HasPrefix(name, "Append") && !strings.HasPrefix(name, "Encode")
	}
	return false
}

// callsTo: the calls of fn (nil: none) in body.
func callsTo(info *types.Info, body ast.Node, fn *FuncInfo) []*ast.CallExpr {
	var out []*ast.CallExpr
	if fn == nil {
		return nil
	}
	for _, c := range callsIn(body, false) {
		if calleeOf(info, c) == fn.Obj {
			out = append(out, c)
		}
	}
	return out
}
