package main

// tokimm.go (C18.R8, C02.R9): what the lexer produced is what is parsed. The parser moves tokens through its cursor
// (cur = peek; peek = next token) and copies them into nodes; it never edits one. A store into a field of a token
// that sits in the parser's cursor - the literal of the text token behind a comment tag trimmed, a type rewritten -
// changes the template text after the lexer has read it: literal text is no longer copied byte for byte, and a
// comment tag placed in front of it is no longer neutral.

import (
	"go/types"

	"golang.org/x/tools/go/ssa"
)

func tokenImmutableRule(r *Run, rule string) {
	w := r.W
	pm := w.parserModel()
	if len(pm.problems) > 0 || pm.cur == nil || pm.peek == nil {
		r.Lost(rule, "parser model")
		return
	}
	w.SSA()
	pst, ok := pm.typ.Underlying().(*types.Struct)
	if !ok {
		r.Lost(rule, "parser struct")
		return
	}
	curIdx, peekIdx := fieldIndex(pst, pm.cur), fieldIndex(pst, pm.peek)
	isCursorToken := func(v ssa.Value) bool {
		fa, ok := v.(*ssa.FieldAddr)
		if !ok || (fa.Field != curIdx && fa.Field != peekIdx) {
			return false
		}
		t := fa.X.Type()
		if pt, isPtr := t.Underlying().(*types.Pointer); isPtr {
			t = pt.Elem()
		}
		n, isNamed := t.(*types.Named)
		return isNamed && n.Obj() == pm.typ.Obj()
	}
	nFns, nBad := 0, 0
	for _, f := range w.Funcs("parser") {
		fn := w.SSAFunc(f)
		if fn == nil {
			continue
		}
		nFns++
		for _, g := range append([]*ssa.Function{fn}, allAnon(fn)...) {
			for _, b := range g.Blocks {
				for _, ins := range b.Instrs {
					st, ok := ins.(*ssa.Store)
					if !ok {
						continue
					}
					inner, ok := st.Addr.(*ssa.FieldAddr)
					if !ok || !isCursorToken(inner.X) {
						continue
					}
					nBad++
					fname := "a field"
					if tt, ok := deref(inner.X.Type()).Underlying().(*types.Struct); ok && inner.Field < tt.NumFields() {
						fname = tt.Field(inner.Field).Name()
					}
					r.Bad(rule, ssaName(g), "store into "+fname+" of a token in the parser's cursor", w.Pos(st.Pos()),
						"the parser edits a token the lexer produced: what is parsed (and, for a text token, what is rendered) is no longer what the template says - literal text is not copied byte for byte, and whatever triggers the edit (a comment tag in front of the text) is not neutral")
				}
			}
		}
	}
	if nFns == 0 {
		r.Lost(rule, "functions of the parser")
		return
	}
	if nBad == 0 {
		r.Ok(rule, "parser", "tokens are not edited after the lexer", "-", "no function of the parser stores into a field of its current or its next token (whole tokens are moved and copied only)")
	}
}
