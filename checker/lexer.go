package main

import (
	"fmt"
	"go/ast"
	"go/constant"
	"go/token"
	"go/types"
	"golang.org/x/tools/go/ssa"
	"sort"
	"strings"
)

// lexerModel is the role-resolved view of package lexer used by the rules of
// C03, C06, C15 and C18.
type lexerModel struct {
	w        *World
	info     *types.Info
	typ      *types.Named
	input    *types.Var // string field
	ch       *types.Var // byte field
	line     *types.Var // int field incremented by readChar
	posF     []*types.Var
	insideF  *types.Var // bool field
	readChar *FuncInfo
	peekChar *FuncInfo
	insideTk *FuncInfo // the token function with the big switch on ch
	nextTok  *FuncInfo // exported NextToken
	newFn    *FuncInfo // constructor
	methods  []*FuncInfo
	sw       *ast.SwitchStmt
	arms     []lexArm
	scanners map[*types.Func]string // "behind" | "on"
	problems []string
}

type lexPath struct {
	reads      int
	scans      []string // kinds of scanners called
	recursive  bool     // called the inside-token function
	tokType    string
	tokTypeOK  bool
	literal    string
	literalOK  bool
	exit       string // tail | return-tok | return-recursive | return-call
	lineSet    bool
	loops      int
	readsAfter int // explicit reads after a scanner call
	pos        token.Pos
	chars      map[int]byte
	locals     map[types.Object]int // local byte var -> token offset
	desc       []string
}

type lexArm struct {
	clause    *ast.CaseClause
	label     string
	chars     []byte
	isDefault bool
	isEOF     bool
	isComment bool
	paths     []lexPath
}

func (p lexPath) clone() lexPath {
	q := p
	q.scans = append([]string(nil), p.scans...)
	q.desc = append([]string(nil), p.desc...)
	q.chars = map[int]byte{}
	for k, v := range p.chars {
		q.chars[k] = v
	}
	q.locals = map[types.Object]int{}
	for k, v := range p.locals {
		q.locals[k] = v
	}
	return q
}

func analyseLexerArms(w *World) *lexerModel { return analyseLexer(w, true) }

// analyseLexerArmsLight resolves the roles only (struct, fields, readChar,
// peekChar, constructor, methods); it does not need the token switch.
func analyseLexerArmsLight(w *World) *lexerModel { return analyseLexer(w, false) }

func analyseLexer(w *World, arms bool) *lexerModel {
	m := &lexerModel{w: w, info: w.Pkgs["lexer"].TypesInfo, scanners: map[*types.Func]string{}}
	m.typ = w.NamedType("lexer", "Lexer")
	if m.typ == nil {
		// role: the struct with a string field and a byte field
		sc := w.Pkgs["lexer"].Types.Scope()
		for _, n := range sc.Names() {
			if tn, ok := sc.Lookup(n).(*types.TypeName); ok {
				if _, ok := tn.Type().Underlying().(*types.Struct); ok {
					m.typ, _ = tn.Type().(*types.Named)
				}
			}
		}
	}
	if m.typ == nil {
		m.problems = append(m.problems, "lexer struct type")
		return m
	}
	st := m.typ.Underlying().(*types.Struct)
	for i := 0; i < st.NumFields(); i++ {
		f := st.Field(i)
		if b, ok := f.Type().(*types.Basic); ok {
			switch b.Kind() {
			case types.String:
				m.input = f
			case types.Uint8:
				m.ch = f
			case types.Bool:
				m.insideF = f
			}
		}
	}
	for _, f := range w.Funcs("lexer") {
		if isMethodOf(f, m.typ) {
			m.methods = append(m.methods, f)
		} else if f.Obj != nil {
			sig := f.Obj.Type().(*types.Signature)
			if sig.Results().Len() == 1 && namedIs(sig.Results().At(0).Type(), lexPkgPath, m.typ.Obj().Name()) {
				m.newFn = f
			}
		}
	}
	if m.input == nil || m.ch == nil {
		m.problems = append(m.problems, "input/ch fields")
		return m
	}
	// readChar: the method that assigns ch
	for _, f := range m.methods {
		assignsCh := false
		inspectBody(f.Decl.Body, false, func(n ast.Node) bool {
			if as, ok := n.(*ast.AssignStmt); ok {
				for _, l := range as.Lhs {
					if _, fld := fieldOf(m.info, l); fld == m.ch {
						assignsCh = true
					}
				}
			}
			return true
		})
		if assignsCh {
			if m.readChar != nil {
				m.problems = append(m.problems, "more than one method assigns the current-character field: "+m.readChar.Name()+", "+f.Name())
			}
			m.readChar = f
		}
	}
	if m.readChar == nil {
		m.problems = append(m.problems, "method assigning the current character")
		return m
	}
	// int fields written by readChar: positions and the line counter
	inspectBody(m.readChar.Decl.Body, false, func(n ast.Node) bool {
		switch s := n.(type) {
		case *ast.IncDecStmt:
			if _, fld := fieldOf(m.info, s.X); fld != nil {
				if m.isLineInc(s) {
					m.line = fld
				}
			}
		}
		return true
	})
	inspectBody(m.readChar.Decl.Body, false, func(n ast.Node) bool {
		var lhs []ast.Expr
		switch s := n.(type) {
		case *ast.AssignStmt:
			lhs = s.Lhs
		case *ast.IncDecStmt:
			lhs = []ast.Expr{s.X}
		}
		for _, l := range lhs {
			if _, fld := fieldOf(m.info, l); fld != nil && fld != m.ch && fld != m.line {
				if b, ok := fld.Type().(*types.Basic); ok && b.Kind() == types.Int {
					dup := false
					for _, p := range m.posF {
						if p == fld {
							dup = true
						}
					}
					if !dup {
						m.posF = append(m.posF, fld)
					}
				}
			}
		}
		return true
	})
	// peekChar: method returning byte without parameters that is not readChar
	for _, f := range m.methods {
		sig := f.Obj.Type().(*types.Signature)
		if sig.Params().Len() == 0 && sig.Results().Len() == 1 && f != m.readChar {
			if b, ok := sig.Results().At(0).Type().(*types.Basic); ok && b.Kind() == types.Uint8 {
				// peek reads input[readPosition]; prev reads input[readPosition-k]
				isPrev := false
				inspectBody(f.Decl.Body, false, func(n ast.Node) bool {
					if ix, ok := n.(*ast.IndexExpr); ok {
						if be, ok := unparen(ix.Index).(*ast.BinaryExpr); ok && be.Op == token.SUB {
							isPrev = true
						}
					}
					return true
				})
				// on the value graph: the offsets (relative to a cursor field) at which the method reads the input.
				// peek reads at offset 0 of the read position; a look-behind only at negative offsets (however the
				// index is computed: input[readPosition-2], or prev := readPosition - 2; if prev < 0 {...}; input[prev])
				if offs, known := inputReadOffsets(w, f); known {
					isPrev = true
					for _, o := range offs {
						if o >= 0 {
							isPrev = false
						}
					}
				}
				if !isPrev {
					m.peekChar = f
				}
			}
		}
	}
	// token functions
	for _, f := range m.methods {
		sig := f.Obj.Type().(*types.Signature)
		if sig.Params().Len() != 0 || sig.Results().Len() != 1 || !namedIs(sig.Results().At(0).Type(), tokPath, "Token") {
			continue
		}
		var sw *ast.SwitchStmt
		for _, st := range f.Decl.Body.List {
			if s, ok := st.(*ast.SwitchStmt); ok && s.Tag != nil {
				if _, fld := fieldOf(m.info, s.Tag); fld == m.ch {
					sw = s
				}
			}
		}
		if sw != nil {
			m.insideTk, m.sw = f, sw
		} else if f.Decl.Name.IsExported() {
			m.nextTok = f
		}
	}
	if !arms {
		return m
	}
	if m.insideTk == nil || m.peekChar == nil {
		m.problems = append(m.problems, "inside-tag token function with a switch on the current character / peek function")
		return m
	}
	m.classifyScanners()
	for _, c := range m.sw.Body.List {
		m.arms = append(m.arms, m.analyseArm(c.(*ast.CaseClause)))
	}
	return m
}

func (m *lexerModel) isLineInc(s *ast.IncDecStmt) bool {
	// a ++ inside an if whose condition compares ch with '\n'
	for p := m.w.Parent(s); p != nil; p = m.w.Parent(p) {
		if ifs, ok := p.(*ast.IfStmt); ok {
			if be, ok := unparen(ifs.Cond).(*ast.BinaryExpr); ok && be.Op == token.EQL {
				if v, ok := constInt(m.info, be.Y); ok && v == '\n' {
					return true
				}
			}
		}
		if _, ok := p.(*ast.FuncDecl); ok {
			break
		}
	}
	return false
}

func (m *lexerModel) isChField(e ast.Expr) bool {
	_, fld := fieldOf(m.info, e)
	return fld != nil && fld == m.ch
}

func (m *lexerModel) isCall(e ast.Expr, f *FuncInfo) bool {
	if f == nil {
		return false
	}
	return isCallTo(m.info, e, f.Obj)
}

// classifyScanners: a string-returning method with a single loop is
// "behind" when the loop is `for pred(ch) { readChar() }` (it stops on the
// first byte that is NOT part of the token) and "on" when the loop breaks on
// `ch == quote` (it stops ON the last byte of the token).
func (m *lexerModel) classifyScanners() {
	for _, f := range m.methods {
		sig := f.Obj.Type().(*types.Signature)
		if sig.Results().Len() != 1 {
			continue
		}
		if b, ok := sig.Results().At(0).Type().(*types.Basic); !ok || b.Kind() != types.String {
			continue
		}
		var loops []*ast.ForStmt
		inspectBody(f.Decl.Body, false, func(n ast.Node) bool {
			if l, ok := n.(*ast.ForStmt); ok {
				loops = append(loops, l)
			}
			return true
		})
		if len(loops) != 1 {
			continue
		}
		l := loops[0]
		if len(l.Body.List) == 1 {
			if es, ok := l.Body.List[0].(*ast.ExprStmt); ok && m.isCall(es.X, m.readChar) {
				m.scanners[f.Obj] = "behind"
				continue
			}
		}
		hasBreakOnEq := false
		inspectBody(l.Body, false, func(n ast.Node) bool {
			if ifs, ok := n.(*ast.IfStmt); ok {
				if be, ok := unparen(ifs.Cond).(*ast.BinaryExpr); ok && be.Op == token.EQL && m.isChField(be.X) {
					for _, st := range ifs.Body.List {
						if b, ok := st.(*ast.BranchStmt); ok && b.Tok == token.BREAK {
							hasBreakOnEq = true
						}
					}
				}
			}
			return true
		})
		if hasBreakOnEq {
			m.scanners[f.Obj] = "on"
		}
	}
}

func (m *lexerModel) analyseArm(cc *ast.CaseClause) lexArm {
	a := lexArm{clause: cc}
	if cc.List == nil {
		a.isDefault = true
		a.label = "default"
	}
	var labs []string
	for _, e := range cc.List {
		if v, ok := constInt(m.info, e); ok {
			a.chars = append(a.chars, byte(v))
			if v == 0 {
				a.isEOF = true
				labs = append(labs, "0")
			} else {
				labs = append(labs, fmt.Sprintf("%q", rune(v)))
			}
		}
	}
	if !a.isDefault {
		a.label = "case " + strings.Join(labs, ",")
	}
	start := lexPath{chars: map[int]byte{}, locals: map[types.Object]int{}}
	if len(a.chars) == 1 {
		start.chars[0] = a.chars[0]
	}
	done, open := m.walk(cc.Body, start, false)
	for _, p := range open {
		p.exit = "tail"
		// the shared tail: readChar(); tok.LineNumber = ...; return tok
		p.lineSet = p.lineSet || m.tailSetsLine()
		done = append(done, p)
	}
	a.paths = done
	for _, p := range done {
		if p.recursive {
			a.isComment = true
		}
	}
	return a
}

// tailSetsLine: the statements after the switch assign the token's LineNumber.
func (m *lexerModel) tailSetsLine() bool {
	after := false
	set := false
	for _, st := range m.insideTk.Decl.Body.List {
		if st == ast.Stmt(m.sw) {
			after = true
			continue
		}
		if !after {
			continue
		}
		if as, ok := st.(*ast.AssignStmt); ok {
			for _, l := range as.Lhs {
				if _, fld := fieldOf(m.info, l); fld != nil && fld.Name() == "LineNumber" {
					set = true
				}
			}
		}
	}
	return set
}

// walk enumerates the paths through stmts. It returns the paths that left
// the function (done) and those that fall out of the statement list (open).
// A `break` that is not inside a nested switch/loop leaves the arm: such a
// path is returned in open with brk set via the desc marker.
func (m *lexerModel) walk(stmts []ast.Stmt, p lexPath, nested bool) (done, open []lexPath) {
	cur := []lexPath{p}
	for _, st := range stmts {
		var next []lexPath
		for _, c := range cur {
			if len(c.desc) > 0 && c.desc[len(c.desc)-1] == "#break" {
				next = append(next, c)
				continue
			}
			d, o := m.step(st, c, nested)
			done = append(done, d...)
			next = append(next, o...)
		}
		cur = next
	}
	return done, cur
}

func clearBreak(ps []lexPath) []lexPath {
	for i := range ps {
		if n := len(ps[i].desc); n > 0 && ps[i].desc[n-1] == "#break" {
			ps[i].desc = ps[i].desc[:n-1]
		}
	}
	return ps
}

func (m *lexerModel) step(st ast.Stmt, p lexPath, nested bool) (done, open []lexPath) {
	switch s := st.(type) {
	case *ast.ExprStmt:
		m.effects(s.X, &p)
		return nil, []lexPath{p}
	case *ast.AssignStmt:
		for _, r := range s.Rhs {
			m.effects(r, &p)
		}
		m.assign(s, &p)
		return nil, []lexPath{p}
	case *ast.DeclStmt, *ast.EmptyStmt, *ast.IncDecStmt:
		return nil, []lexPath{p}
	case *ast.ReturnStmt:
		p.pos = s.Pos()
		if len(s.Results) == 1 {
			e := unparen(s.Results[0])
			if call, ok := e.(*ast.CallExpr); ok {
				if m.isCall(call, m.insideTk) {
					p.recursive = true
					p.exit = "return-recursive"
					p.lineSet = true
					return []lexPath{p}, nil
				}
				// a constructor helper such as newIllegalTokenLiteral
				m.tokenFromCall(call, &p)
				p.exit = "return-call"
				return []lexPath{p}, nil
			}
			if cl, ok := e.(*ast.CompositeLit); ok {
				m.tokenFromLit(cl, &p)
			}
		}
		p.exit = "return-tok"
		return []lexPath{p}, nil
	case *ast.BranchStmt:
		if s.Tok == token.BREAK && s.Label == nil {
			p.desc = append(p.desc, "#break")
			return nil, []lexPath{p}
		}
		return nil, []lexPath{p}
	case *ast.BlockStmt:
		return m.walk(s.List, p, nested)
	case *ast.IfStmt:
		if s.Init != nil {
			d, o := m.step(s.Init, p, nested)
			done = append(done, d...)
			if len(o) != 1 {
				return done, o
			}
			p = o[0]
		}
		m.effects(s.Cond, &p)
		pt, pf := p.clone(), p.clone()
		m.assume(s.Cond, true, &pt)
		m.assume(s.Cond, false, &pf)
		d1, o1 := m.walk(s.Body.List, pt, nested)
		done = append(done, d1...)
		open = append(open, o1...)
		if s.Else != nil {
			d2, o2 := m.step(s.Else, pf, nested)
			done = append(done, d2...)
			open = append(open, o2...)
		} else {
			open = append(open, pf)
		}
		return done, open
	case *ast.SwitchStmt:
		if s.Init != nil {
			_, o := m.step(s.Init, p, nested)
			if len(o) == 1 {
				p = o[0]
			}
		}
		hasDefault := false
		for _, c := range s.Body.List {
			cc := c.(*ast.CaseClause)
			q := p.clone()
			if cc.List == nil {
				hasDefault = true
			}
			if s.Tag != nil && m.isCall(s.Tag, m.peekChar) && len(cc.List) == 1 {
				if v, ok := constInt(m.info, cc.List[0]); ok {
					q.chars[q.reads+1] = byte(v)
				}
			}
			d, o := m.walk(cc.Body, q, true)
			done = append(done, d...)
			open = append(open, clearBreak(o)...)
		}
		if !hasDefault {
			open = append(open, p)
		}
		return done, open
	case *ast.ForStmt:
		p.loops++
		// reads inside a loop are not counted; the arm is treated as a scan
		for _, c := range callsIn(s, false) {
			if m.isCall(c, m.insideTk) {
				p.recursive = true
			}
		}
		p.scans = append(p.scans, "loop")
		return nil, []lexPath{p}
	}
	return nil, []lexPath{p}
}

// effects accounts for readChar / scanner / recursive calls inside e, in
// source order.
func (m *lexerModel) effects(e ast.Expr, p *lexPath) {
	for _, c := range callsIn(e, true) {
		cal := calleeOf(m.info, c)
		switch {
		case m.isCall(c, m.readChar):
			if len(p.scans) > 0 {
				p.readsAfter++
			}
			p.reads++
		case m.isCall(c, m.insideTk):
			p.recursive = true
		case cal != nil && m.scanners[cal] != "":
			p.scans = append(p.scans, m.scanners[cal])
		}
	}
}

func (m *lexerModel) assume(cond ast.Expr, val bool, p *lexPath) {
	if !val {
		return
	}
	for _, cj := range conjuncts(cond) {
		be, ok := unparen(cj).(*ast.BinaryExpr)
		if !ok || be.Op != token.EQL {
			continue
		}
		if m.isCall(be.X, m.peekChar) {
			if v, ok := constInt(m.info, be.Y); ok {
				p.chars[p.reads+1] = byte(v)
			}
		}
	}
}

// byteAt evaluates a byte-valued expression to the token offset it denotes.
func (m *lexerModel) byteAt(e ast.Expr, p *lexPath) (byte, bool) {
	e = unparen(e)
	// an unknown byte is represented by 0xFF: its value is unknown but its
	// length (one byte) is what the cursor rule needs
	if m.isChField(e) {
		if b, ok := p.chars[p.reads]; ok {
			return b, true
		}
		return 0xFF, true
	}
	if o := objOf(m.info, e); o != nil {
		if off, ok := p.locals[o]; ok {
			if b, ok := p.chars[off]; ok {
				return b, true
			}
			return 0xFF, true
		}
	}
	if v, ok := constInt(m.info, e); ok {
		return byte(v), true
	}
	return 0, false
}

// strVal evaluates a string expression built from constants and string(byte).
func (m *lexerModel) strVal(e ast.Expr, p *lexPath) (string, bool) {
	e = unparen(e)
	if s, ok := constString(m.info, e); ok {
		return s, true
	}
	switch x := e.(type) {
	case *ast.BinaryExpr:
		if x.Op == token.ADD {
			a, ok1 := m.strVal(x.X, p)
			b, ok2 := m.strVal(x.Y, p)
			return a + b, ok1 && ok2
		}
	case *ast.CallExpr:
		if t, ok := isConversion(m.info, x); ok && len(x.Args) == 1 {
			if b, ok := t.Underlying().(*types.Basic); ok && b.Kind() == types.String {
				if c, ok := m.byteAt(x.Args[0], p); ok {
					return string([]byte{c}), true
				}
			}
		}
	}
	return "", false
}

func (m *lexerModel) assign(s *ast.AssignStmt, p *lexPath) {
	if len(s.Lhs) != len(s.Rhs) {
		return
	}
	for i, l := range s.Lhs {
		rhs := unparen(s.Rhs[i])
		// ch := l.ch
		if o := objOf(m.info, l); o != nil && m.isChField(rhs) {
			p.locals[o] = p.reads
			continue
		}
		// tok = <composite literal> | l.newToken(T)
		if o := objOf(m.info, l); o != nil && namedIs(o.Type(), tokPath, "Token") {
			switch r := rhs.(type) {
			case *ast.CompositeLit:
				m.tokenFromLit(r, p)
			case *ast.CallExpr:
				m.tokenFromCall(r, p)
			}
			p.pos = s.Pos()
			continue
		}
		// tok.Type = X ; tok.Literal = ... ; tok.LineNumber = ...
		if x, fld := fieldOf(m.info, l); fld != nil && x != nil {
			if o := objOf(m.info, x); o != nil && namedIs(o.Type(), tokPath, "Token") {
				switch fld.Name() {
				case "Type":
					if v, ok := constString(m.info, rhs); ok {
						p.tokType, p.tokTypeOK = v, true
					} else {
						p.tokTypeOK = false
						p.tokType = short(m.w.Fset, rhs)
					}
				case "Literal":
					if v, ok := m.strVal(rhs, p); ok {
						p.literal, p.literalOK = v, true
					} else {
						p.literalOK = false
					}
				case "LineNumber":
					p.lineSet = true
				}
				p.pos = s.Pos()
			}
		}
	}
}

func (m *lexerModel) tokenFromLit(cl *ast.CompositeLit, p *lexPath) {
	p.tokTypeOK, p.literalOK, p.lineSet = false, false, false
	for _, e := range cl.Elts {
		kv, ok := e.(*ast.KeyValueExpr)
		if !ok {
			continue
		}
		k, _ := kv.Key.(*ast.Ident)
		if k == nil {
			continue
		}
		switch k.Name {
		case "Type":
			if v, ok := constString(m.info, kv.Value); ok {
				p.tokType, p.tokTypeOK = v, true
			}
		case "Literal":
			if v, ok := m.strVal(kv.Value, p); ok {
				p.literal, p.literalOK = v, true
			}
		case "LineNumber":
			p.lineSet = true
		}
	}
	p.pos = cl.Pos()
}

// tokenFromCall handles token constructors: methods returning a composite
// token literal built from their parameters and the current character.
func (m *lexerModel) tokenFromCall(call *ast.CallExpr, p *lexPath) {
	cal := calleeOf(m.info, call)
	fi := m.w.FuncOf(cal)
	p.tokTypeOK, p.literalOK, p.lineSet = false, false, false
	p.pos = call.Pos()
	if fi == nil || len(fi.Decl.Body.List) != 1 {
		return
	}
	ret, ok := fi.Decl.Body.List[0].(*ast.ReturnStmt)
	if !ok || len(ret.Results) != 1 {
		return
	}
	cl, ok := unparen(ret.Results[0]).(*ast.CompositeLit)
	if !ok {
		return
	}
	params := map[types.Object]ast.Expr{}
	sig := cal.Type().(*types.Signature)
	for i := 0; i < sig.Params().Len() && i < len(call.Args); i++ {
		params[sig.Params().At(i)] = call.Args[i]
	}
	for _, e := range cl.Elts {
		kv, ok := e.(*ast.KeyValueExpr)
		if !ok {
			continue
		}
		k, _ := kv.Key.(*ast.Ident)
		if k == nil {
			continue
		}
		val := kv.Value
		if a, ok := params[objOf(m.info, val)]; ok {
			val = a
			switch k.Name {
			case "Type":
				if v, ok := constString(m.info, val); ok {
					p.tokType, p.tokTypeOK = v, true
				}
			case "Literal":
				if v, ok := m.strVal(val, p); ok {
					p.literal, p.literalOK = v, true
				}
			}
			continue
		}
		switch k.Name {
		case "Type":
			if v, ok := constString(fi.Pkg.TypesInfo, val); ok {
				p.tokType, p.tokTypeOK = v, true
			}
		case "Literal":
			// string(l.ch) in the callee = the current character at the call
			if v, ok := m.strVal(val, p); ok {
				p.literal, p.literalOK = v, true
			}
		case "LineNumber":
			p.lineSet = true
		}
	}
}

// ---- byte predicates ---------------------------------------------------------

// evalBytePred evaluates a boolean expression over the current character for
// a concrete byte value b, symbolically (comparison chains, && || !, and
// calls of one-line predicate functions over a byte). ok=false if the
// expression has another shape.
func (m *lexerModel) evalBytePred(info *types.Info, e ast.Expr, isCh func(ast.Expr) bool, b byte) (val bool, ok bool) {
	e = unparen(e)
	switch x := e.(type) {
	case *ast.BinaryExpr:
		switch x.Op {
		case token.LAND, token.LOR:
			l, ok1 := m.evalBytePred(info, x.X, isCh, b)
			if ok1 && l == (x.Op == token.LOR) {
				return l, true // the left operand decides: the right one is not evaluated
			}
			r, ok2 := m.evalBytePred(info, x.Y, isCh, b)
			if !ok1 || !ok2 {
				return false, false
			}
			if x.Op == token.LAND {
				return l && r, true
			}
			return l || r, true
		case token.EQL, token.NEQ, token.LSS, token.LEQ, token.GTR, token.GEQ:
			lv, ok1 := m.byteOperand(info, x.X, isCh, b)
			rv, ok2 := m.byteOperand(info, x.Y, isCh, b)
			if !ok1 || !ok2 {
				return false, false
			}
			return constant.Compare(constant.MakeInt64(lv), x.Op, constant.MakeInt64(rv)), true
		}
	case *ast.UnaryExpr:
		if x.Op == token.NOT {
			v, ok := m.evalBytePred(info, x.X, isCh, b)
			return !v, ok
		}
	case *ast.CallExpr:
		// one-line predicate: func isX(ch byte) bool { return <expr over ch> }
		cal := calleeOf(info, x)
		fi := m.w.FuncOf(cal)
		if fi == nil || len(x.Args) != 1 || len(fi.Decl.Body.List) != 1 {
			return false, false
		}
		if !isCh(x.Args[0]) {
			return false, false
		}
		ret, ok := fi.Decl.Body.List[0].(*ast.ReturnStmt)
		if !ok || len(ret.Results) != 1 {
			return false, false
		}
		param := cal.Type().(*types.Signature).Params().At(0)
		pinfo := fi.Pkg.TypesInfo
		return m.evalBytePred(pinfo, ret.Results[0], func(e ast.Expr) bool { return objOf(pinfo, e) == param }, b)
	}
	return false, false
}

func (m *lexerModel) byteOperand(info *types.Info, e ast.Expr, isCh func(ast.Expr) bool, b byte) (int64, bool) {
	if isCh(e) {
		return int64(b), true
	}
	return constInt(info, e)
}

// ---- shared rules ------------------------------------------------------------

func contains(xs []string, s string) bool {
	for _, x := range xs {
		if x == s {
			return true
		}
	}
	return false
}

func c06LexerLiterals(r *Run) {
	w := r.W
	lm := w.lexSSA()
	if !lm.ok() {
		r.Lost("R6", lm.why())
		return
	}
	fn := ssaName(lm.inside)
	prods := lm.productions()
	swPos := lm.inside.Pos()
	// operator tokens = infix registry minus call/index, plus '!'
	ops := map[string]bool{"!": true}
	for _, g := range w.registrations() {
		if g.Infix && g.Token != "(" && g.Token != "[" {
			ops[g.Token] = true
		}
	}
	var names []string
	for o := range ops {
		names = append(names, o)
	}
	sort.Strings(names)
	for _, op := range names {
		lits := prods[op]
		found := false
		for _, l := range lits {
			if l == op {
				found = true
			} else if op == "~=" && l == "~" {
				// frozen exception: a lone '~' is tokenised as MATCHES with literal "~";
				// the evaluator then reports 'unknown operator' (an error, not a wrong result)
				r.Note("lexer produces MATCHES with literal %q for a lone '~' (evaluates to an 'unknown operator' error)", l)
			} else {
				r.Bad("R6", fn, fmt.Sprintf("token %s with literal %q", op, l), w.Pos(swPos),
					"the literal attached to an operator token differs from the operator's spelling; the evaluator dispatches on the literal")
			}
		}
		if found {
			r.Ok("R6", fn, "token "+op, w.Pos(swPos), "lexer literal = token constant")
		} else {
			r.Bad("R6", fn, "no lexer path produces "+op, w.Pos(swPos), "operator token is never produced with its own spelling as literal")
		}
	}
	// evaluator labels must be producible
	tabs, _ := w.operatorTables()
	info := w.Pkgs[""].TypesInfo
	for _, t := range tabs {
		inspectBody(t.fn.Decl.Body, false, func(n ast.Node) bool {
			cc, ok := n.(*ast.CaseClause)
			if !ok {
				return true
			}
			for _, e := range cc.List {
				if s, ok := constString(info, e); ok {
					if !ops[s] {
						r.Bad("R6", t.fn.Name(), "label "+s, w.Pos(e.Pos()), "evaluator label is not the spelling of any operator token with an infix registration")
					}
				}
			}
			return true
		})
	}
	// the parser copies the literal into the node's operator
	if infix := w.registeredFn("+", true); infix != nil {
		cur, _, _ := w.parserTokenFields()
		pinfo := w.Pkgs["parser"].TypesInfo
		ok := false
		inspectBody(infix.Decl.Body, false, func(n ast.Node) bool {
			kv, isKV := n.(*ast.KeyValueExpr)
			if !isKV {
				return true
			}
			if k, _ := kv.Key.(*ast.Ident); k != nil && k.Name == "Operator" {
				if x, fld := fieldOf(pinfo, kv.Value); fld != nil && fld.Name() == "Literal" {
					if _, cf := fieldOf(pinfo, x); cf == cur {
						ok = true
					}
				}
			}
			return true
		})
		if ok {
			r.Ok("R6", infix.Name(), "Operator: curToken.Literal", w.Pos(infix.Decl.Pos()), "node operator = token literal")
		} else {
			r.Bad("R6", infix.Name(), "Operator field", w.Pos(infix.Decl.Pos()), "the infix node's Operator must be the current token's literal")
		}
	}
}

// inputReadOffsets: the constant offsets, relative to a field of the receiver, of the indexes at which the
// method f reads a string (the input); known is false when some index is not field+constant.
func inputReadOffsets(w *World, f *FuncInfo) (offs []int64, known bool) {
	fn := w.SSAFunc(f)
	if fn == nil {
		return nil, false
	}
	var offsetsOf func(v ssa.Value, depth int) ([]int64, bool)
	offsetsOf = func(v ssa.Value, depth int) ([]int64, bool) {
		if depth > 6 {
			return nil, false
		}
		switch x := v.(type) {
		case *ssa.UnOp:
			if x.Op == token.MUL {
				if _, isFA := x.X.(*ssa.FieldAddr); isFA {
					return []int64{0}, true
				}
			}
		case *ssa.BinOp:
			c, isC := x.Y.(*ssa.Const)
			if !isC || c.Value == nil || c.Value.Kind() != constant.Int || (x.Op != token.ADD && x.Op != token.SUB) {
				return nil, false
			}
			k, _ := constant.Int64Val(c.Value)
			if x.Op == token.SUB {
				k = -k
			}
			in, ok := offsetsOf(x.X, depth+1)
			if !ok {
				return nil, false
			}
			var out []int64
			for _, o := range in {
				out = append(out, o+k)
			}
			return out, true
		case *ssa.Phi:
			var out []int64
			for _, e := range x.Edges {
				in, ok := offsetsOf(e, depth+1)
				if !ok {
					return nil, false
				}
				out = append(out, in...)
			}
			return out, true
		}
		return nil, false
	}
	n := 0
	for _, b := range fn.Blocks {
		for _, ins := range b.Instrs {
			var idx ssa.Value
			switch x := ins.(type) {
			case *ssa.Lookup:
				if bt, isB := x.X.Type().Underlying().(*types.Basic); isB && bt.Info()&types.IsString != 0 {
					idx = x.Index
				}
			case *ssa.Index:
				idx = x.Index
			}
			if idx == nil {
				continue
			}
			n++
			o, ok := offsetsOf(idx, 0)
			if !ok {
				return nil, false
			}
			offs = append(offs, o...)
		}
	}
	return offs, n > 0
}
