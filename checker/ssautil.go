package main

import (
	"go/ast"
	"go/token"
	"go/types"
	"sort"
	"strings"

	"golang.org/x/tools/go/callgraph"
	"golang.org/x/tools/go/callgraph/cha"
	"golang.org/x/tools/go/callgraph/vta"
	"golang.org/x/tools/go/ssa"
	"golang.org/x/tools/go/ssa/ssautil"
)

// inModule reports whether fn belongs to the plush module.
func inModule(fn *ssa.Function) bool {
	if fn == nil {
		return false
	}
	p := fn.Package()
	if p == nil && fn.Parent() != nil {
		return inModule(fn.Parent())
	}
	if p == nil {
		// method wrappers / instantiations: look at the object
		if o := fn.Object(); o != nil && o.Pkg() != nil {
			return o.Pkg().Path() == modPath || strings.HasPrefix(o.Pkg().Path(), modPath+"/")
		}
		return false
	}
	return p.Pkg.Path() == modPath || strings.HasPrefix(p.Pkg.Path(), modPath+"/")
}

func fnPkgPath(fn *ssa.Function) string {
	for fn != nil && fn.Parent() != nil {
		fn = fn.Parent()
	}
	if fn == nil {
		return ""
	}
	if fn.Package() != nil {
		return fn.Package().Pkg.Path()
	}
	if o := fn.Object(); o != nil && o.Pkg() != nil {
		return o.Pkg().Path()
	}
	return ""
}

func fnRel(fn *ssa.Function) string {
	p := fnPkgPath(fn)
	return strings.TrimPrefix(strings.TrimPrefix(p, modPath), "/")
}

// ssaName renders an SSA function like FuncInfo.Name does.
func ssaName(fn *ssa.Function) string {
	if fn == nil {
		return "<nil>"
	}
	rel := fnRel(fn)
	if rel == "" {
		rel = "plush"
	}
	name := fn.Name()
	if fn.Parent() != nil {
		return ssaName(fn.Parent()) + "$" + strings.TrimPrefix(name, fn.Parent().Name()+"$")
	}
	if fn.Signature.Recv() != nil {
		t := deref(fn.Signature.Recv().Type())
		if n, ok := t.(*types.Named); ok {
			name = n.Obj().Name() + "." + name
		}
	}
	return rel + "." + name
}

// SSAFunc returns the SSA function of a declaration.
func (w *World) SSAFunc(f *FuncInfo) *ssa.Function {
	if f == nil || f.Obj == nil {
		return nil
	}
	return w.SSA().FuncValue(f.Obj)
}

// callGraph builds the VTA call graph (on top of CHA) once.
func (w *World) callGraph() *callgraph.Graph {
	if w.cg != nil {
		return w.cg
	}
	prog := w.SSA()
	w.cg = vta.CallGraph(ssautil.AllFunctions(prog), cha.CallGraph(prog))
	return w.cg
}

// helperRoots returns the functions the module itself registers as template
// helpers (they are invoked through reflect.Value.Call, which no call graph
// sees): every function value stored in a map composite literal of type
// hctx.Map / map[string]interface{} in the helpers packages, and the
// arguments of HelperMap.Add in package plush.
func (w *World) helperRoots() map[*types.Func]string {
	out := map[*types.Func]string{}
	for _, p := range w.All {
		info := p.TypesInfo
		for _, f := range p.Syntax {
			ast.Inspect(f, func(n ast.Node) bool {
				switch x := n.(type) {
				case *ast.CompositeLit:
					tv, ok := info.Types[x]
					if !ok {
						return true
					}
					if _, isMap := tv.Type.Underlying().(*types.Map); !isMap {
						return true
					}
					for _, e := range x.Elts {
						kv, ok := e.(*ast.KeyValueExpr)
						if !ok {
							continue
						}
						key, _ := constString(info, kv.Key)
						if fn := funcValue(info, kv.Value); fn != nil {
							out[fn] = key
						}
					}
				case *ast.CallExpr:
					cal := calleeOf(info, x)
					if cal != nil && methodIs(cal, modPath+"/helpers", "HelperMap", "Add") && len(x.Args) == 2 {
						key, _ := constString(info, x.Args[0])
						if fn := funcValue(info, x.Args[1]); fn != nil {
							out[fn] = key
						}
					}
				}
				return true
			})
		}
	}
	return out
}

// funcValue: e denotes a declared function (identifier or pkg.Func), or a
// package-level variable initialised with one (JSEscape = template.JSEscapeString).
func funcValue(info *types.Info, e ast.Expr) *types.Func {
	switch x := unparen(e).(type) {
	case *ast.Ident:
		if fn, ok := info.Uses[x].(*types.Func); ok {
			return fn
		}
	case *ast.SelectorExpr:
		if fn, ok := info.Uses[x.Sel].(*types.Func); ok {
			return fn
		}
	}
	return nil
}

// execReachable: module functions reachable from Template.Exec and from the
// registered helpers, through the VTA call graph (module functions only).
func (w *World) execReachable() map[*ssa.Function]bool {
	if w.reach != nil {
		return w.reach
	}
	prog := w.SSA()
	cg := w.callGraph()
	var roots []*ssa.Function
	if exec := w.Func("", "Template.Exec"); exec != nil {
		if f := prog.FuncValue(exec.Obj); f != nil {
			roots = append(roots, f)
		}
	}
	for fn := range w.helperRoots() {
		if f := prog.FuncValue(fn); f != nil && inModule(f) {
			roots = append(roots, f)
		}
	}
	// methods of the helper context and of Context are called by helpers
	// through the hctx interfaces
	for _, tn := range []string{"HelperContext", "Context"} {
		if nt := w.NamedType("", tn); nt != nil {
			for _, t := range []types.Type{nt, types.NewPointer(nt)} {
				ms := prog.MethodSets.MethodSet(t)
				for i := 0; i < ms.Len(); i++ {
					if f := prog.MethodValue(ms.At(i)); f != nil && inModule(f) {
						roots = append(roots, f)
					}
				}
			}
		}
	}
	seen := map[*ssa.Function]bool{}
	var visit func(f *ssa.Function)
	visit = func(f *ssa.Function) {
		if f == nil || seen[f] || !inModule(f) {
			return
		}
		seen[f] = true
		for _, af := range f.AnonFuncs {
			visit(af)
		}
		if n := cg.Nodes[f]; n != nil {
			for _, e := range n.Out {
				visit(e.Callee.Func)
			}
		}
	}
	for _, r := range roots {
		visit(r)
	}
	w.reach = seen
	return seen
}

func sortedFuncs(m map[*ssa.Function]bool) []*ssa.Function {
	var out []*ssa.Function
	for f := range m {
		out = append(out, f)
	}
	sort.Slice(out, func(i, j int) bool {
		if out[i].Pos() != out[j].Pos() {
			return out[i].Pos() < out[j].Pos()
		}
		return out[i].String() < out[j].String()
	})
	return out
}

// declaredIn reports whether t (after removing pointers) is a named type
// declared in the package with the given path.
func declaredIn(t types.Type, pkgPath string) bool {
	t = deref(t)
	if a, ok := t.(*types.Alias); ok {
		t = types.Unalias(a)
	}
	n, ok := t.(*types.Named)
	return ok && n.Obj().Pkg() != nil && n.Obj().Pkg().Path() == pkgPath
}

// addrBase walks an address (or container value) back to what it is derived
// from and classifies it. It returns:
//
//	"ast:<Type>.<field>"  a field (or an element of a slice/map held in a field) of an object of a type declared in package ast
//	"global:<name>"       a package-level variable (or an element of a container held in one)
//	"fresh"               memory allocated in this function
//	""                    anything else (parameters, results of calls, ...)
func addrBase(v ssa.Value, depth int) string {
	if depth > 12 || v == nil {
		return ""
	}
	switch x := v.(type) {
	case *ssa.FieldAddr:
		st := deref(x.X.Type())
		if declaredIn(x.X.Type(), astPath) {
			fld := ""
			if s, ok := st.Underlying().(*types.Struct); ok && x.Field < s.NumFields() {
				fld = s.Field(x.Field).Name()
			}
			if isFresh(x.X, 0) {
				return "fresh"
			}
			return "ast:" + typeStr(st) + "." + fld
		}
		return addrBase(x.X, depth+1)
	case *ssa.Field:
		return addrBase(x.X, depth+1)
	case *ssa.IndexAddr:
		return addrBase(x.X, depth+1)
	case *ssa.Index:
		return addrBase(x.X, depth+1)
	case *ssa.Lookup:
		return addrBase(x.X, depth+1)
	case *ssa.UnOp:
		if x.Op == token.MUL {
			return addrBase(x.X, depth+1)
		}
	case *ssa.Slice:
		return addrBase(x.X, depth+1)
	case *ssa.Global:
		if x.Pkg != nil && (x.Pkg.Pkg.Path() == modPath || strings.HasPrefix(x.Pkg.Pkg.Path(), modPath+"/")) {
			return "global:" + x.Pkg.Pkg.Name() + "." + x.Name()
		}
		return ""
	case *ssa.Alloc:
		return "fresh"
	case *ssa.MakeMap, *ssa.MakeSlice:
		return "fresh"
	case *ssa.Phi:
		res := ""
		for _, e := range x.Edges {
			if b := addrBase(e, depth+1); b != "" && b != "fresh" {
				return b
			} else if b == "fresh" {
				res = "fresh"
			}
		}
		return res
	case *ssa.Extract:
		return addrBase(x.Tuple, depth+1)
	case *ssa.TypeAssert:
		return addrBase(x.X, depth+1)
	case *ssa.ChangeInterface:
		return addrBase(x.X, depth+1)
	case *ssa.ChangeType:
		return addrBase(x.X, depth+1)
	case *ssa.MakeInterface:
		return addrBase(x.X, depth+1)
	case *ssa.Parameter, *ssa.FreeVar:
		// a pointer to an AST object passed in: the object itself is AST memory
		if declaredIn(x.Type(), astPath) {
			return "astobj:" + typeStr(deref(x.Type()))
		}
	case *ssa.Call:
		if declaredIn(x.Type(), astPath) {
			return "astobj:" + typeStr(deref(x.Type()))
		}
	}
	return ""
}

func isFresh(v ssa.Value, depth int) bool {
	if depth > 8 {
		return false
	}
	switch x := v.(type) {
	case *ssa.Alloc:
		return true
	case *ssa.Phi:
		for _, e := range x.Edges {
			if !isFresh(e, depth+1) {
				return false
			}
		}
		return len(x.Edges) > 0
	}
	return false
}

// calleeName returns "pkgpath.Name" or "pkgpath.(Type).Name" of a static callee.
func staticCalleeName(c ssa.CallInstruction) (pkg, name string) {
	cc := c.Common()
	if cc.IsInvoke() {
		if cc.Method != nil && cc.Method.Pkg() != nil {
			return cc.Method.Pkg().Path(), "(" + bareTypeName(cc.Value.Type()) + ")." + cc.Method.Name()
		}
		return "", cc.Method.Name()
	}
	if f := cc.StaticCallee(); f != nil {
		if o := f.Object(); o != nil && o.Pkg() != nil {
			if f.Signature.Recv() != nil {
				return o.Pkg().Path(), "(" + bareTypeName(f.Signature.Recv().Type()) + ")." + o.Name()
			}
			return o.Pkg().Path(), o.Name()
		}
	}
	return "", ""
}

func bareTypeName(t types.Type) string {
	t = deref(t)
	if n, ok := t.(*types.Named); ok {
		return n.Obj().Name()
	}
	return typeStr(t)
}

// pkgOf: the package a function belongs to; for an instance of a generic function, that of the generic.
func pkgOf(fn *ssa.Function) *ssa.Package {
	if fn == nil {
		return nil
	}
	if fn.Pkg != nil {
		return fn.Pkg
	}
	if o := fn.Origin(); o != nil {
		return o.Pkg
	}
	if p := fn.Parent(); p != nil {
		return pkgOf(p)
	}
	return nil
}

// fnObject: the declared object of a function; for an instance of a generic function, that of the generic.
func fnObject(fn *ssa.Function) types.Object {
	if fn == nil {
		return nil
	}
	if o := fn.Object(); o != nil {
		return o
	}
	if o := fn.Origin(); o != nil {
		return o.Object()
	}
	return nil
}
