package main

// evalcore.go: the rules about the evaluator's core (top-level loop, block
// evaluator, in-block statement evaluator, return evaluator) decided on the
// paths of their SSA form. Helper methods that are not evaluators themselves
// are walked in line, so extracting `evalProgramStatement`, `lineError`,
// `exitBlockResult` and the like, or turning if/else into type switches and
// early returns, does not change what is decided.

import (
	"fmt"
	"go/constant"
	"go/token"
	"go/types"
	"strings"
	"sync"

	"golang.org/x/tools/go/ssa"
)

type coreModel struct {
	w                                      *World
	top, sink, block, stmt, ret, let, expr *ssa.Function
	topInfo                                *FuncInfo
	curStmtIdx                             int
	canon                                  map[*ssa.Function]bool
	canonOnce                              sync.Once
}

// inBlockStmtEval: the statement evaluator the block evaluator calls.
func (w *World) inBlockStmtEval() *FuncInfo {
	be := w.evalMethod("BlockStatement")
	if be == nil {
		return nil
	}
	cands := map[*types.Func]*FuncInfo{}
	for _, f := range w.evalMethods("Statement") {
		cands[f.Obj] = f
	}
	for _, c := range callsIn(be.Decl.Body, true) {
		if f := cands[calleeOf(be.Pkg.TypesInfo, c)]; f != nil {
			return f
		}
	}
	return nil
}

func (w *World) coreModel() *coreModel {
	w.coreOnce.Do(func() { w.coreMdl = w.buildCoreModel() })
	return w.coreMdl
}

func (w *World) buildCoreModel() *coreModel {
	w.SSA()
	m := &coreModel{w: w, curStmtIdx: -1}
	fn := func(f *FuncInfo) *ssa.Function {
		if f == nil {
			return nil
		}
		return w.SSAFunc(f)
	}
	m.topInfo = w.topLevelEval()
	m.top, m.sink, m.block = fn(m.topInfo), fn(w.sinkMethod()), fn(w.evalMethod("BlockStatement"))
	m.stmt, m.ret, m.let, m.expr = fn(w.inBlockStmtEval()), fn(w.evalMethod("ReturnStatement")), fn(w.evalMethod("LetStatement")), fn(w.exprEvaluator())
	if ct := w.compilerType(); ct != nil {
		if f := w.compilerField("curStmt"); f != nil {
			m.curStmtIdx = fieldIndex(ct.Underlying().(*types.Struct), f)
		}
	}
	return m
}

// canonical: the evaluator's fixed points -- the dispatchers, the per-node
// evaluators the expression dispatcher hands over to, the sink, the predicate,
// the user-function call. Everything else in the root package that the
// evaluator calls statically is a helper and is walked in line.
func (m *coreModel) canonicalSet() map[*ssa.Function]bool {
	m.canonOnce.Do(m.buildCanon)
	return m.canon
}

func (m *coreModel) buildCanon() {
	m.canon = map[*ssa.Function]bool{}
	for _, f := range []*ssa.Function{m.top, m.sink, m.block, m.stmt, m.ret, m.let, m.expr} {
		if f != nil {
			m.canon[f] = true
		}
	}
	if m.expr != nil {
		for _, b := range m.expr.Blocks {
			for _, ins := range b.Instrs {
				if c, ok := ins.(*ssa.Call); ok {
					if cal := c.Call.StaticCallee(); cal != nil && m.w.isCompilerMethod(cal) && m.w.isNodeEvaluator(cal) {
						m.canon[cal] = true
					}
				}
			}
		}
	}
	if t := m.w.truthyMethod(); t != nil {
		m.canon[m.w.SSAFunc(t)] = true
	}
	if u := m.w.userFunctionEval(); u != nil {
		m.canon[m.w.SSAFunc(u)] = true
	}
}

// inline: helpers of the evaluator (root package, no receiver or the evaluator as receiver) that are not canonical.
func (m *coreModel) inline(caller, callee *ssa.Function) bool {
	if pkgOf(callee) == nil || m.top == nil || pkgOf(callee) != m.top.Pkg {
		return false
	}
	if rc := callee.Signature.Recv(); rc != nil && !m.w.isCompilerMethod(callee) {
		// a method of another type of the package: only of an unexported one (userFunction, the exit
		// objects), and not one with a loop over foreign data that would blow the paths up
		t := rc.Type()
		if pt, ok := t.(*types.Pointer); ok {
			t = pt.Elem()
		}
		nt, ok := t.(*types.Named)
		if !ok || nt.Obj().Exported() {
			return false
		}
	}
	if m.canonicalSet()[callee] {
		return false
	}
	if fnObject(callee) != nil && fnObject(callee).Exported() {
		return false
	}
	return true
}

// evalResult: v is result #idx of a call of an evaluator; returns the callee.
func evalResult(p *pwPath, v ssa.Value, idx int) (*ssa.Function, *ssa.Call) {
	ex, ok := p.resolve(stripIface(p.resolve(v))).(*ssa.Extract)
	if !ok || ex.Index != idx {
		return nil, nil
	}
	c, ok := ex.Tuple.(*ssa.Call)
	if !ok {
		return nil, nil
	}
	return c.Call.StaticCallee(), c
}

func isFieldLoadOf(v ssa.Value, typPkg, typName, field string) (ssa.Value, bool) {
	u, ok := v.(*ssa.UnOp)
	if !ok || u.Op != token.MUL {
		return nil, false
	}
	fa, ok := u.X.(*ssa.FieldAddr)
	if !ok {
		return nil, false
	}
	pt, ok := fa.X.Type().Underlying().(*types.Pointer)
	if !ok || !namedIs(pt.Elem(), typPkg, typName) {
		return nil, false
	}
	st, ok := pt.Elem().Underlying().(*types.Struct)
	if !ok || fa.Field >= st.NumFields() || st.Field(fa.Field).Name() != field {
		return nil, false
	}
	// a variable that lives in a cell because a closure captures it, written once: the value written
	if ld, isLd := fa.X.(*ssa.UnOp); isLd {
		if sv := cellValue(ld); sv != nil {
			return sv, true
		}
	}
	return fa.X, true
}

// ---- top level: C02.R2 (top-level part), C15.R2 ------------------------------------

func coreTopLevelRules(r *Run, silentRule, exitRule string) {
	w := r.W
	m := w.coreModel()
	if m.top == nil || m.sink == nil || m.ret == nil || m.let == nil || m.expr == nil {
		for _, rl := range []string{silentRule, exitRule} {
			if rl != "" {
				r.Lost(rl, "top-level evaluator / sink / statement evaluators")
			}
		}
		return
	}
	paths, ok := walkPathsUnrolled(m.top, nil, m.inline, 20000)
	if !ok || len(paths) == 0 {
		for _, rl := range []string{silentRule, exitRule} {
			if rl != "" {
				r.Lost(rl, "paths of the top-level evaluator")
			}
		}
		return
	}
	name := ssaName(m.top)
	type verdict struct {
		ok  bool
		why string
		pos token.Pos
	}
	sinkSources := map[string]verdict{}
	nErr, okErr := 0, true
	errWhy := ""
	var errPos token.Pos = m.top.Pos()
	for _, p := range paths {
		if p.end != "return" || len(p.results) != 2 {
			continue
		}
		// what reaches the sink
		for _, ev := range p.events {
			c, ok := ev.(*ssa.Call)
			if !ok || c.Call.StaticCallee() != m.sink || w.sinkValueArg(&c.Call) == nil {
				continue
			}
			sinkArg := w.sinkValueArg(&c.Call)
			v := p.resolve(stripIface(p.resolve(sinkArg)))
			key, vd := "", verdict{pos: c.Pos()}
			switch {
			case isNilConst(v) || isNilConst(p.resolve(sinkArg)):
				key, vd.ok, vd.why = "nothing (nil)", true, "a silent statement writes nothing"
			default:
				if cal, _ := evalResult(p, v, 0); cal != nil {
					switch cal {
					case m.ret:
						key, vd.ok, vd.why = "value of "+cal.Name(), true, "a <%= %>/return value"
					case m.let:
						key, vd.ok, vd.why = "value of "+cal.Name(), true, "let (evaluates to nil)"
					default:
						key, vd.ok = "value of "+cal.Name(), false
						vd.why = "at top level only <%= %> values, literal text and let may reach the sink; the value of a silent <% %> expression must be discarded"
					}
				} else if ct, isCT := v.(*ssa.ChangeType); isCT && namedIs(ct.Type(), htmlTplPath, "HTML") {
					if _, isLit := isFieldLoadOf(p.resolve(ct.X), astPath, "HTMLLiteral", "Value"); isLit {
						key, vd.ok, vd.why = "template.HTML(<HTMLLiteral>.Value)", true, "literal text"
					}
				} else if cv, isCV := v.(*ssa.Convert); isCV && namedIs(cv.Type(), htmlTplPath, "HTML") {
					if _, isLit := isFieldLoadOf(p.resolve(cv.X), astPath, "HTMLLiteral", "Value"); isLit {
						key, vd.ok, vd.why = "template.HTML(<HTMLLiteral>.Value)", true, "literal text"
					}
				}
				if key == "" {
					key, vd.ok = "an unrecognised value "+v.Name(), false
					vd.why = "at top level only <%= %> values, literal text and let may reach the sink; the value of a silent <% %> expression must be discarded"
				}
			}
			if old, seen := sinkSources[key]; !seen || (old.ok && !vd.ok) {
				sinkSources[key] = vd
			}
		}
		// the error exit
		if p.knownNil(p.results[1]) {
			continue
		}
		nErr++
		errPos = p.ret.Pos()
		why := m.checkLineError(p)
		if why != "" && okErr {
			okErr, errWhy = false, why
		}
	}
	if silentRule != "" {
		if len(sinkSources) == 0 {
			r.Lost(silentRule, "values handed to the sink by the top-level evaluator")
		}
		for _, k := range sortedKeys(sinkSources) {
			vd := sinkSources[k]
			if vd.ok {
				r.Ok(silentRule, name, "top-level value "+k, w.Pos(vd.pos), vd.why)
			} else {
				r.Bad(silentRule, name, "top-level value "+k, w.Pos(vd.pos), vd.why)
			}
		}
	}
	if exitRule != "" {
		switch {
		case nErr == 0:
			r.Bad(exitRule, name, "no error exit", w.Pos(errPos), "a failing statement must fail the render with a line-prefixed error")
		case okErr:
			r.Ok(exitRule, name, "error exit fmt.Errorf(\"line %d: %w\", <statement>.T().LineNumber, err)", w.Pos(errPos), fmt.Sprintf("all %d error-returning path(s); the statement is the innermost recorded one if any, else the top-level statement", nErr))
		default:
			r.Bad(exitRule, name, "error exit", w.Pos(errPos), "the runtime error exit must be fmt.Errorf(\"line %d: %w\", <line>, err): "+errWhy)
		}
	}
}

func sortedKeys[V any](m map[string]V) []string {
	var ks []string
	for k := range m {
		ks = append(ks, k)
	}
	sortStrings(ks)
	return ks
}

// checkLineError: the error returned on this path is fmt.Errorf("line %d: %w", S.T().LineNumber, err)
// with S the innermost recorded statement when there is one, else the top-level statement.
func (m *coreModel) checkLineError(p *pwPath) string {
	c, ok := p.resolve(p.results[1]).(*ssa.Call)
	if !ok || c.Call.StaticCallee() == nil || c.Call.StaticCallee().Pkg == nil || c.Call.StaticCallee().Pkg.Pkg.Path() != "fmt" || c.Call.StaticCallee().Name() != "Errorf" || len(c.Call.Args) != 2 {
		return "the error is not built by fmt.Errorf"
	}
	f, ok := p.constOf(c.Call.Args[0])
	if !ok || f.Kind() != constant.String || constant.StringVal(f) != "line %d: %w" {
		return "the format is not exactly \"line %d: %w\""
	}
	args, ok := p.sliceElems(c.Call.Args[1])
	if !ok || len(args) != 2 {
		return "the operands are not (line, error)"
	}
	// operand 0: <S>.T().LineNumber
	line := p.resolve(stripIface(p.resolve(args[0])))
	var tcall *ssa.Call
	switch x := line.(type) {
	case *ssa.Field:
		tcall, _ = p.resolve(x.X).(*ssa.Call)
	case *ssa.UnOp:
		if fa, ok := x.X.(*ssa.FieldAddr); ok && x.Op == token.MUL {
			if v, ok := p.stores[p.addrKey(fa.X)]; ok {
				tcall, _ = p.resolve(v).(*ssa.Call)
			}
		}
	}
	if tcall == nil || !tcall.Call.IsInvoke() || tcall.Call.Method.Name() != "T" {
		return "the line is not taken from <statement>.T().LineNumber"
	}
	// which field of the token?
	if fld, ok := line.(*ssa.Field); ok {
		if st, ok := fld.X.Type().Underlying().(*types.Struct); !ok || st.Field(fld.Field).Name() != "LineNumber" {
			return "the operand is not the token's LineNumber"
		}
	}
	s := p.resolve(tcall.Call.Value)
	isCur := false
	if u, ok := s.(*ssa.UnOp); ok && u.Op == token.MUL {
		if fa, ok := u.X.(*ssa.FieldAddr); ok && fa.Field == m.curStmtIdx && m.w.isCompilerValue(fa.X) {
			isCur = true
		}
	}
	// was the recorded statement found non-nil on this path?
	curNonNil, curKnown := false, false
	for _, d := range p.decisions {
		x, op, ok := isNilCompare(p, d.cond)
		if !ok {
			continue
		}
		x = p.resolve(stripIface(p.resolve(x)))
		if u, ok := x.(*ssa.UnOp); ok && u.Op == token.MUL {
			if fa, ok := u.X.(*ssa.FieldAddr); ok && fa.Field == m.curStmtIdx && m.w.isCompilerValue(fa.X) {
				curKnown = true
				curNonNil = d.truth != (op == token.EQL)
			}
		}
	}
	switch {
	case !curKnown:
		return "the recorded inner statement is not consulted"
	case curNonNil && !isCur:
		return "an inner statement was recorded but the line of another statement is reported"
	case !curNonNil && isCur:
		return "no inner statement was recorded but its (nil) slot is dereferenced"
	}
	if !curNonNil {
		// must be the statement of this iteration: an element of program.Statements
		el, ok := s.(*ssa.UnOp)
		if !ok || el.Op != token.MUL {
			return "the fallback is not the top-level statement"
		}
		if _, isIA := el.X.(*ssa.IndexAddr); !isIA {
			return "the fallback is not the top-level statement"
		}
	}
	// operand 1: the error that was found non-nil
	errV := p.resolve(stripIface(p.resolve(args[1])))
	tested := false
	for _, d := range p.decisions {
		x, op, ok := isNilCompare(p, d.cond)
		if ok && p.resolve(x) == errV && d.truth != (op == token.EQL) {
			tested = true
		}
	}
	if !tested {
		return "the wrapped error is not the error that was found non-nil"
	}
	return ""
}

// isCompilerValue: v has type *compiler.
func (w *World) isCompilerValue(v ssa.Value) bool {
	pt, ok := v.Type().(*types.Pointer)
	if !ok {
		return false
	}
	n, ok := pt.Elem().(*types.Named)
	return ok && w.compilerType() != nil && n.Obj() == w.compilerType().Obj()
}

// ---- block evaluator: C08.R4, C16.R3 -----------------------------------------------

// valueFieldIndex: the index of the slice-typed field that carries an exit object's output.
func valueFieldIndex(t types.Type) int {
	st, ok := t.Underlying().(*types.Struct)
	if !ok {
		return -1
	}
	for i := 0; i < st.NumFields(); i++ {
		if _, isSlice := st.Field(i).Type().Underlying().(*types.Slice); isSlice {
			return i
		}
	}
	return -1
}

func exitTypeName(t types.Type) string {
	s := typeStr(t)
	if i := strings.LastIndex(s, "."); i >= 0 {
		s = s[i+1:]
	}
	return s
}

func coreBlockRules(r *Run, foldRule, endRule string) {
	w := r.W
	m := w.coreModel()
	if m.block == nil || m.stmt == nil {
		for _, rl := range []string{foldRule, endRule} {
			if rl != "" {
				r.Lost(rl, "block evaluator / in-block statement evaluator")
			}
		}
		return
	}
	paths, ok := walkPathsUnrolled(m.block, nil, m.inline, 20000)
	if !ok || len(paths) == 0 {
		for _, rl := range []string{foldRule, endRule} {
			if rl != "" {
				r.Lost(rl, "paths of the block evaluator")
			}
		}
		return
	}
	name := ssaName(m.block)
	pos := w.Pos(m.block.Pos())
	// the accumulator: what the block returns when no statement ran
	var base ssa.Value
	for _, p := range paths {
		if p.end == "return" && len(p.results) == 2 && p.knownNil(p.results[1]) {
			calls := 0
			for _, ev := range p.events {
				if c, ok := ev.(*ssa.Call); ok && c.Call.StaticCallee() == m.stmt {
					calls++
				}
			}
			if calls == 0 {
				base = p.resolve(stripIface(p.resolve(p.results[0])))
			}
		}
	}
	type armVerdict struct {
		ok  bool
		why string
		at  token.Pos
		n   int
	}
	arms := map[string]*armVerdict{}
	endsOK, endsN := true, 0
	for _, p := range paths {
		if p.end != "return" || len(p.results) != 2 || !p.knownNil(p.results[1]) {
			continue
		}
		// the statement's value on this path
		var val ssa.Value
		for _, ev := range p.events {
			if c, ok := ev.(*ssa.Call); ok && c.Call.StaticCallee() == m.stmt {
				val = c
			}
		}
		if val == nil {
			continue
		}
		// dynamic-type decisions about that value (or the exit interface obtained from it)
		exitKind := ""
		isExit := false
		for _, d := range p.decisions {
			ex, ok := d.cond.(*ssa.Extract)
			if !ok || ex.Index != 1 || !d.truth {
				continue
			}
			ta, ok := ex.Tuple.(*ssa.TypeAssert)
			if !ok {
				continue
			}
			src := p.resolve(stripIface(p.resolve(ta.X)))
			for i := 0; i < 3; i++ {
				if e2, ok := src.(*ssa.Extract); ok && e2.Index == 0 {
					if t2, ok := e2.Tuple.(*ssa.TypeAssert); ok {
						src = p.resolve(stripIface(p.resolve(t2.X)))
						continue
					}
				}
				break
			}
			if e0, ok := src.(*ssa.Extract); !ok || e0.Tuple != val {
				continue
			}
			tn := exitTypeName(ta.AssertedType)
			if _, isIface := ta.AssertedType.Underlying().(*types.Interface); isIface && declaredIn(ta.AssertedType, modPath) {
				isExit = true
			}
			if strings.HasSuffix(tn, "Object") && declaredIn(ta.AssertedType, modPath) {
				exitKind, isExit = tn, true
			}
		}
		if !isExit {
			continue
		}
		// C16.R3: the path must not have gone round the loop again
		endsN++
		if p.revisits > 0 {
			endsOK = false
		}
		_ = p.revisited
		if exitKind == "" {
			continue
		}
		v := arms[exitKind]
		if v == nil {
			v = &armVerdict{ok: true, at: p.ret.Pos()}
			arms[exitKind] = v
		}
		v.n++
		if why := m.checkFold(p, exitKind, val, base); why != "" {
			v.ok, v.why = false, why
		}
	}
	if endRule != "" {
		switch {
		case endsN == 0:
			r.Bad(endRule, name, "exit object does not end the block", pos, "no path of the block evaluator recognises an exit object (return/break/continue wrapper)")
		case endsOK:
			r.Ok(endRule, name, "exit object returns from the statement loop", pos, fmt.Sprintf("all %d path(s) that see an exit object return in that iteration", endsN))
		default:
			r.Bad(endRule, name, "exit object does not end the block", pos, "after a statement yields a return/break/continue object the block evaluator must return in that iteration; everything after the first return reached must be skipped")
		}
	}
	if foldRule != "" {
		for _, k := range []string{"breakObject", "continueObject", "returnObject"} {
			v := arms[k]
			switch {
			case v == nil:
				r.Bad(foldRule, name, "no arm for "+k, pos, "the block evaluator must fold its partial output into "+k)
			case v.ok:
				r.Ok(foldRule, name, k+" carries the output so far plus the inner value", w.Pos(v.at), "accumulated results first, then the inner object's value")
			default:
				r.Bad(foldRule, name, k+" arm", w.Pos(v.at), "break/continue/return objects must carry the output accumulated so far followed by the inner object's value: "+v.why)
			}
		}
	}
}

// checkFold: the value returned for an exit object of the given kind is the
// same kind of object whose Value is <accumulator> ++ <inner value>.
func (m *coreModel) checkFold(p *pwPath, kind string, stmtCall ssa.Value, base ssa.Value) string {
	res := p.resolve(p.results[0])
	mi, ok := res.(*ssa.MakeInterface)
	if !ok {
		return "the result is not an exit object"
	}
	if exitTypeName(mi.X.Type()) != kind {
		return "a " + kind + " is turned into a " + exitTypeName(mi.X.Type())
	}
	vi := valueFieldIndex(mi.X.Type())
	val, ok := p.structField(mi.X, vi)
	if !ok {
		// a struct value in a register: a Field-wise construction is not tracked; accept the value if it is the asserted object itself
		return "the object's Value cannot be read"
	}
	app, ok := p.resolve(val).(*ssa.Call)
	if !ok {
		return "Value is not built by append"
	}
	if b, ok := app.Call.Value.(*ssa.Builtin); !ok || b.Name() != "append" || len(app.Call.Args) != 2 {
		return "Value is not built by append"
	}
	first := p.resolve(app.Call.Args[0])
	if base != nil && first != base {
		// the accumulator may itself have been appended to (return arm appends the raw value first)
		return "the first operand of append is not the output accumulated so far"
	}
	second := p.resolve(app.Call.Args[1])
	switch kind {
	case "returnObject":
		// append(acc, i): the raw statement value, wrapped into the accumulator
		els, ok := p.sliceElems(second)
		if !ok || len(els) != 1 {
			return "the return arm must append the statement's value to the accumulated output"
		}
		src := p.resolve(stripIface(p.resolve(els[0])))
		// the same value seen through the exit interface (i.(exitIface)) is still the statement's value
		// (also through an assertion to its concrete type: the struct boxed again is an equal value)
		for i := 0; i < 3; i++ {
			if e2, ok := src.(*ssa.Extract); ok && e2.Index == 0 {
				if ta, ok := e2.Tuple.(*ssa.TypeAssert); ok {
					_, isIface := ta.AssertedType.Underlying().(*types.Interface)
					_, isStruct := ta.AssertedType.Underlying().(*types.Struct)
					if isIface || isStruct {
						src = p.resolve(stripIface(p.resolve(ta.X)))
						continue
					}
				}
			}
			if ta, ok := src.(*ssa.TypeAssert); ok && !ta.CommaOk {
				src = p.resolve(stripIface(p.resolve(ta.X)))
				continue
			}
			break
		}
		if e, ok := src.(*ssa.Extract); !ok || e.Tuple != stmtCall || e.Index != 0 {
			return "the return arm must append the statement's value to the accumulated output"
		}
	default:
		// append(acc, obj.Value...): the inner object's Value
		inner := second
		okInner := false
		switch x := inner.(type) {
		case *ssa.Field:
			okInner = x.Field == valueFieldIndex(x.X.Type())
		case *ssa.UnOp:
			if fa, ok := x.X.(*ssa.FieldAddr); ok && x.Op == token.MUL {
				if pt, ok := fa.X.Type().Underlying().(*types.Pointer); ok && fa.Field == valueFieldIndex(pt.Elem()) {
					okInner = true
				}
			}
		}
		if !okInner {
			return "the second operand of append is not the inner object's Value"
		}
	}
	return ""
}

// ---- in-block statement evaluator: C02.R2 (in-block part) -------------------------

func coreStatementRule(r *Run, rule string) {
	w := r.W
	m := w.coreModel()
	if m.stmt == nil || m.expr == nil {
		r.Lost(rule, "in-block statement evaluator")
		return
	}
	paths, ok := walkPathsUnrolled(m.stmt, nil, m.inline, 20000)
	if !ok {
		r.Lost(rule, "paths of the in-block statement evaluator")
		return
	}
	name := ssaName(m.stmt)
	n, bad := 0, false
	for _, p := range paths {
		if p.end != "return" || len(p.results) != 2 {
			continue
		}
		cal, call := evalResult(p, p.results[0], 0)
		if cal != m.expr {
			continue
		}
		// an expression statement hands its value on: why?
		n++
		why := ""
		for _, d := range p.decisions {
			ex, ok := d.cond.(*ssa.Extract)
			if !ok || ex.Index != 1 || !d.truth {
				continue
			}
			ta, ok := ex.Tuple.(*ssa.TypeAssert)
			if !ok {
				continue
			}
			src := p.resolve(stripIface(p.resolve(ta.X)))
			if _, isLitNode := ta.AssertedType.(*types.Pointer); isLitNode && namedIs(ta.AssertedType, astPath, "HTMLLiteral") {
				if _, isExprField := isFieldLoadOf(src, astPath, "ExpressionStatement", "Expression"); isExprField {
					why = "decided on the NODE being literal text"
				}
			}
			if e0, ok := src.(*ssa.Extract); ok && e0.Tuple == ssa.Value(call) && e0.Index == 0 {
				t := ta.AssertedType
				tn := typeStr(t)
				if strings.HasSuffix(tn, "exitBlockStatment") || (strings.HasSuffix(tn, "Object") && declaredIn(t, modPath)) || namedIs(t, astPath, "Printable") {
					why = "the value is a control-flow object"
				}
			}
		}
		if why == "" && !bad {
			bad = true
			r.Bad(rule, name, "in-block expression statement returns its value", w.Pos(p.ret.Pos()),
				"inside a block a silent <% %> tag prints its value when the value happens to have a printable dynamic type (for example template.HTML from raw(), partial(), a helper): the same tag prints nothing at top level")
		}
	}
	switch {
	case n == 0:
		r.Lost(rule, "paths on which an in-block expression statement yields its value")
	case !bad:
		r.Ok(rule, name, "in-block expression statement yields a value only for literal text or control-flow objects", w.Pos(m.stmt.Pos()), fmt.Sprintf("%d path(s)", n))
	}
}

// ---- return evaluator: C16.R7 -----------------------------------------------------

func coreReturnRule(r *Run, rule string) {
	w := r.W
	m := w.coreModel()
	if m.ret == nil || m.expr == nil {
		r.Lost(rule, "return evaluator")
		return
	}
	paths, ok := walkPathsUnrolled(m.ret, nil, m.inline, 5000)
	if !ok {
		r.Lost(rule, "paths of the return evaluator")
		return
	}
	name := ssaName(m.ret)
	nWrap, okAll := 0, true
	why := ""
	for _, p := range paths {
		if p.end != "return" || len(p.results) != 2 || !p.knownNil(p.results[1]) {
			continue
		}
		// is the statement a `return` on this path?
		isReturn, known := false, false
		for _, d := range p.decisions {
			bo, ok := d.cond.(*ssa.BinOp)
			if !ok || (bo.Op != token.EQL && bo.Op != token.NEQ) {
				continue
			}
			x, y := p.resolve(bo.X), p.resolve(bo.Y)
			if _, isT := isFieldLoadOf(y, astPath, "ReturnStatement", "Type"); isT {
				x, y = y, x
			}
			if _, isT := isFieldLoadOf(x, astPath, "ReturnStatement", "Type"); !isT {
				continue
			}
			if c, ok := p.constOf(y); ok && c.Kind() == constant.String && constant.StringVal(c) == "RETURN" {
				isReturn, known = d.truth == (bo.Op == token.EQL), true
			}
		}
		if !known {
			okAll, why = false, "a success path does not decide whether the statement is a return"
			continue
		}
		res := p.resolve(p.results[0])
		if !isReturn {
			continue
		}
		nWrap++
		mi, ok := res.(*ssa.MakeInterface)
		if !ok || exitTypeName(mi.X.Type()) != "returnObject" {
			okAll, why = false, "a return statement's value leaves the return evaluator unwrapped on some path (any early exit other than the error check lets a value, for example nil, fall through)"
			continue
		}
		v, ok := p.structField(mi.X, valueFieldIndex(mi.X.Type()))
		if !ok {
			okAll, why = false, "the return object's Value cannot be read"
			continue
		}
		// Value is append(<empty>, value) or the literal []interface{}{value}
		var els []ssa.Value
		if app, isCall := p.resolve(v).(*ssa.Call); isCall && len(app.Call.Args) > 0 {
			els, ok = p.sliceElems(app.Call.Args[len(app.Call.Args)-1])
		} else {
			els, ok = p.sliceElems(v)
		}
		if !ok || len(els) != 1 {
			okAll, why = false, "the return object's Value is not exactly the evaluated value"
			continue
		}
		if cal, _ := evalResult(p, els[0], 0); cal != m.expr {
			okAll, why = false, "the return object does not carry the evaluated value"
		}
	}
	switch {
	case nWrap == 0:
		r.Bad(rule, name, "wrap of the returned value", w.Pos(m.ret.Pos()), "a return statement must wrap its value into the return object")
	case okAll:
		r.Ok(rule, name, "every value of a return statement is wrapped", w.Pos(m.ret.Pos()), fmt.Sprintf("%d success path(s) of a `return`: each yields returnObject{Value: [value]}", nWrap))
	default:
		r.Bad(rule, name, "wrap of the returned value", w.Pos(m.ret.Pos()), "a return statement must wrap its value into the return object: "+why)
	}
}
